(** Proofs about the ladder over the reals: the setter sorts and keeps the range, the annealer
    keeps both ends, keeps the ladder strictly ordered and inside (0,1]. *)
From Coq Require Import Reals Lra Lia List Permutation Sorted.
From Epsie Require Import Base Num NumR Ladder.
Import ListNotations.
Local Open Scope R_scope.

Lemma insert_desc_perm x l : Permutation (insert_desc x l) (x :: l).
Proof.
  induction l as [|y t IH]; cbn; [reflexivity|]. cbn [nleb NumReal].
  destruct (Rleb y x); [reflexivity|]. rewrite IH. apply perm_swap.
Qed.

Theorem sort_desc_perm l : Permutation (sort_desc l) l.
Proof. induction l as [|x t IH]; cbn; [constructor|]. rewrite insert_desc_perm. now constructor. Qed.

Definition desc (l : list R) : Prop := Sorted Rge l.

Lemma insert_desc_sorted x l : desc l -> desc (insert_desc x l).
Proof.
  unfold desc. induction l as [|y t IH]; intros Hs; cbn; [repeat constructor|]. cbn [nleb NumReal].
  destruct (Rleb y x) eqn:E.
  - apply Rleb_true in E. constructor; [exact Hs|constructor; lra].
  - apply Rleb_false in E. inversion Hs as [|? ? Hs' Hhd]; subst.
    constructor; [now apply IH|].
    destruct t as [|z t']; cbn; [constructor; lra|]. cbn [nleb NumReal].
    destruct (Rleb z x); constructor; [lra|]. inversion Hhd; subst. assumption.
Qed.

Theorem sort_desc_sorted l : desc (sort_desc l).
Proof. induction l as [|x t IH]; cbn; [constructor|]. now apply insert_desc_sorted. Qed.

(** the setter: given in any order, stored from coldest to hottest, every beta in [0,1], same multiset *)
Theorem set_betas_spec (bs out : list R) :
  set_betas bs = Some out ->
  desc out /\ Permutation out bs /\ Forall (fun b => 0 <= b <= 1) out.
Proof.
  unfold set_betas. destruct (forallb in01 bs) eqn:E; [|discriminate]. intros [= <-].
  split; [apply sort_desc_sorted|]. split; [apply sort_desc_perm|].
  rewrite forallb_forall in E. apply Forall_forall. intros b Hb.
  apply (Permutation_in _ (sort_desc_perm bs)) in Hb. specialize (E b Hb).
  unfold in01 in E. cbn [nleb nzero none NumReal] in E. apply andb_prop in E as [E1 E2].
  apply Rleb_true in E1, E2. lra.
Qed.

Theorem set_betas_rejects (bs : list R) b : In b bs -> ~ (0 <= b <= 1) -> set_betas bs = None.
Proof.
  intros Hin Hb. unfold set_betas. destruct (forallb in01 bs) eqn:E; [|reflexivity].
  rewrite forallb_forall in E. specialize (E b Hin). unfold in01 in E. cbn [nleb nzero none NumReal] in E.
  apply andb_prop in E as [E1 E2]. apply Rleb_true in E1, E2. exfalso. apply Hb. lra.
Qed.

(** ** annealing *)
(** one rebuilt beta lies strictly between 0 and its colder neighbour *)
Lemma rebuilt_between prev s : 0 < prev -> 0 < 1 / (1 / prev + exp s) < prev.
Proof.
  intros Hp. pose proof (exp_pos s).
  assert (Hi : 0 < 1 / prev) by (apply Rdiv_lt_0_compat; lra).
  assert (Hd : 0 < 1 / prev + exp s) by lra.
  split; [apply Rdiv_lt_0_compat; lra|].
  apply (Rmult_lt_reg_r (1 / prev + exp s)); [exact Hd|].
  unfold Rdiv at 1. rewrite Rmult_assoc, Rinv_l by lra.
  replace (prev * (1 / prev + exp s)) with (1 + prev * exp s) by (field; lra).
  assert (0 < prev * exp s) by (apply Rmult_lt_0_compat; lra). lra.
Qed.

(** strictly decreasing chain starting below [prev], all elements in (lo, prev) except that the
    last element is the kept hottest beta *)
Fixpoint chain_desc (prev : R) (l : list R) : Prop :=
  match l with
  | [] => True
  | b :: t => b < prev /\ chain_desc b t
  end.

Lemma rebuild_cons2 prev b b' rest' s S' :
  rebuild prev (b :: b' :: rest') (s :: S')
  = (1 / (1 / prev + exp s)) :: rebuild (1 / (1 / prev + exp s)) (b' :: rest') S'.
Proof. reflexivity. Qed.

Lemma rebuild_order rest : forall prev Sv hot,
  0 < prev -> (length rest <= Datatypes.S (length Sv))%nat -> last rest hot <= 0 ->
  chain_desc prev (rebuild prev rest Sv) /\ length (rebuild prev rest Sv) = length rest
  /\ last (rebuild prev rest Sv) hot = last rest hot.
Proof.
  induction rest as [|b rest IH]; intros prev Sv hot Hp Hlen Hlast.
  - cbn. auto.
  - destruct rest as [|b' rest'].
    + cbn in *. repeat split; auto. lra.
    + destruct Sv as [|s S']; [cbn in Hlen; lia|].
      destruct (rebuilt_between prev s Hp) as [H0 H1].
      rewrite rebuild_cons2. set (bn := 1 / (1 / prev + exp s)) in *.
      destruct (IH bn S' hot H0) as (A & B & C).
      * cbn in *. lia.
      * exact Hlast.
      * split; [split; [exact H1|exact A]|]. split; [cbn [length]; now rewrite B|].
        destruct (rebuild bn (b' :: rest') S') as [|r0 rl] eqn:E; [cbn in B; lia|].
        change (last (bn :: r0 :: rl) hot) with (last (r0 :: rl) hot).
        change (last (b :: b' :: rest') hot) with (last (b' :: rest') hot). exact C.
Qed.

(** the annealer keeps the coldest and the hottest beta, and with a hottest beta of 0 (the default
    infinite hottest temperature) the ladder stays strictly ordered with every beta in [0,1] *)
Theorem anneal_keeps_order (nu tau t b0 : R) (rest Sv ars : list R) hot :
  0 < b0 <= 1 -> (length rest <= Datatypes.S (length Sv))%nat -> rest <> [] -> last rest hot <= 0 ->
  let '(bs', S') := anneal nu tau t (b0 :: rest) Sv ars in
  hd 0 bs' = b0 /\ last bs' hot = last rest hot /\ length bs' = Datatypes.S (length rest)
  /\ chain_desc b0 (tl bs') /\ length S' = length Sv.
Proof.
  intros Hb Hlen Hne Hlast. unfold anneal.
  assert (HS : forall d S0 a, length (update_S d S0 a) = length S0).
  { intros d. induction S0 as [|s S0 IH]; intros a; [reflexivity|].
    destruct a as [|a0 [|a1 a']]; try reflexivity. cbn [update_S length]. now rewrite IH. }
  set (S' := update_S (decay nu tau t) Sv (map clip1 ars)).
  assert (HS' : length S' = length Sv) by apply HS.
  destruct (rebuild_order rest b0 S' hot) as (A & B & C); [lra|rewrite HS'; exact Hlen|exact Hlast|].
  cbn [hd tl]. split; [reflexivity|]. split; [|split; [|split; [exact A|exact HS']]].
  - destruct (rebuild b0 rest S') as [|r0 rl] eqn:E.
    + destruct rest; [congruence|cbn in B; lia].
    + change (last (b0 :: r0 :: rl) hot) with (last (r0 :: rl) hot). exact C.
  - cbn [length]. now rewrite B.
Qed.

(** level betas are ladder betas: the annealer assigns the rebuilt intermediate betas to the
    levels and keeps both ends, so the levels keep sampling at the betas the swaps use — for every
    acceptance history, every tau, nu and every number of annealer calls (any numeric instance) *)
Section Coherence.
  Context {T : Type} `{Num T}.

  Lemma assign_tail_rebuild prev rest : forall Sv,
    (length rest <= Datatypes.S (length Sv))%nat -> assign_tail rest (rebuild prev rest Sv) = rebuild prev rest Sv.
  Proof.
    revert prev; induction rest as [|b rest IH]; intros prev Sv Hlen; [reflexivity|].
    destruct rest as [|b' rest']; [reflexivity|].
    destruct Sv as [|s S']; [cbn in Hlen; lia|].
    change (rebuild prev (b :: b' :: rest') (s :: S'))
      with ((none / (none / prev + nexp s))%num :: rebuild (none / (none / prev + nexp s))%num (b' :: rest') S').
    cbn [assign_tail]. f_equal. apply IH. cbn in *. lia.
  Qed.

  Lemma update_S_length d : forall S0 a, length (update_S d S0 a) = length S0.
  Proof.
    induction S0 as [|s S0 IH]; intros a; [reflexivity|].
    destruct a as [|a0 [|a1 a']]; try reflexivity. cbn [update_S length]. now rewrite IH.
  Qed.

  Definition Coherent (st : @lstate T) : Prop :=
    lv_betas st = sw_betas st /\ (length (sw_betas st) <= 2 + length (annS st))%nat.

  Theorem lcall_coherent nu tau t st ars : Coherent st -> Coherent (lcall nu tau t st ars).
  Proof.
    intros [E L]. unfold lcall, anneal. destruct (sw_betas st) as [|b0 rest] eqn:Eb.
    - cbn. rewrite E. split; [reflexivity|cbn; lia].
    - cbn [sw_betas lv_betas annS]. rewrite E. cbn [assign_mid].
      split.
      + apply (f_equal (cons b0)). apply assign_tail_rebuild. rewrite update_S_length. cbn in L. lia.
      + cbn [sw_betas annS length]. rewrite update_S_length.
        assert (length (rebuild b0 rest (update_S (decay nu tau t) (annS st) (map clip1 ars))) <= length rest)%nat.
        { generalize (update_S (decay nu tau t) (annS st) (map clip1 ars)) as Sv. clear. revert b0.
          induction rest as [|b rest IH]; intros b0 Sv; [cbn; lia|].
          destruct rest as [|b' rest']; [cbn; lia|]. destruct Sv as [|s S']; [cbn; lia|].
          change (rebuild b0 (b :: b' :: rest') (s :: S'))
            with ((none / (none / b0 + nexp s))%num :: rebuild (none / (none / b0 + nexp s))%num (b' :: rest') S').
          cbn [length]. specialize (IH (none / (none / b0 + nexp s))%num S'). cbn [length] in IH. lia. }
        cbn in L. lia.
  Qed.

  Theorem coherent_after_any_history nu tau (calls : list (T * list T)) st :
    Coherent st -> Coherent (fold_left (fun s c => lcall nu tau (fst c) s (snd c)) calls st).
  Proof. revert st; induction calls as [|c calls IH]; intros st Hc; cbn; [exact Hc|]. apply IH. now apply lcall_coherent. Qed.

  Theorem construct_coherent tmax bs st : construct tmax bs = Some st -> lv_betas st = sw_betas st.
  Proof. unfold construct. destruct (set_betas bs); [|discriminate]. intros [= <-]. reflexivity. Qed.
End Coherence.

(** ** make_betas_ladder *)
Lemma exp_le_mono a b : a <= b -> exp a <= exp b.
Proof. intros [H | ->]; [left; now apply exp_increasing|lra]. Qed.
Lemma exp_ge_1 y : 0 <= y -> 1 <= exp y.
Proof. intros H. pose proof (exp_le_mono 0 y H) as E. rewrite exp_0 in E. exact E. Qed.

Theorem geom_elem_range (maxtemp : R) (i n : nat) :
  1 <= maxtemp -> (i < n)%nat -> (1 < n)%nat ->
  1 / maxtemp <= geom_elem (1 / maxtemp) i n <= 1.
Proof.
  intros Hm Hi Hn. unfold geom_elem, npow. cbn [nmul ndiv nexp nln none nofZ NumReal].
  set (a := 1 / maxtemp).
  assert (Ha : 0 < a <= 1).
  { unfold a. split; [apply Rdiv_lt_0_compat; lra|].
    apply (Rmult_le_reg_r maxtemp); [lra|]. unfold Rdiv. rewrite Rmult_assoc, Rinv_l; lra. }
  set (x := IZR (Z.of_nat i) / IZR (Z.of_nat (n - 1))).
  assert (Hx : 0 <= x <= 1).
  { unfold x. assert (0 < IZR (Z.of_nat (n - 1))) by (apply IZR_lt; lia).
    assert (0 <= IZR (Z.of_nat i) <= IZR (Z.of_nat (n - 1))) by (split; apply IZR_le; lia).
    split; [apply Rmult_le_pos; [lra|left; now apply Rinv_0_lt_compat]|].
    apply (Rmult_le_reg_r (IZR (Z.of_nat (n - 1)))); [lra|]. unfold Rdiv. rewrite Rmult_assoc, Rinv_l; lra. }
  assert (Hia : 1 <= 1 / a).
  { apply (Rmult_le_reg_r a); [lra|]. unfold Rdiv. rewrite Rmult_assoc, Rinv_l; lra. }
  assert (Hl : 0 <= ln (1 / a)).
  { destruct Hia as [Hlt|Heq]; [|rewrite <- Heq, ln_1; lra].
    left. rewrite <- ln_1. apply ln_increasing; lra. }
  assert (He1 : 1 <= exp (x * ln (1 / a))) by (apply exp_ge_1, Rmult_le_pos; lra).
  assert (He2 : exp (x * ln (1 / a)) <= 1 / a).
  { pose proof (exp_ln (1 / a)) as El. rewrite <- El at 2 by lra. apply exp_le_mono.
    assert (x * ln (1 / a) <= 1 * ln (1 / a)) by (apply Rmult_le_compat_r; lra). lra. }
  split.
  - replace a with (a * 1) at 1 by ring. apply Rmult_le_compat_l; lra.
  - replace 1 with (a * (1 / a)) at 2 by (field; lra). apply Rmult_le_compat_l; lra.
Qed.
