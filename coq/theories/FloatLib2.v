(** More elementary and special functions over primitive floats for the EXECUTION layer
    (no theorem mentions them): sin, cos, atan, atan2, acos, python's float modulo, erf, erfc and
    the mass of an interval under the standard normal law.  Accuracy ~1e-13 relative on the ranges
    the kernels use; validated against numpy/scipy on every run by the correspondence checks. *)
From Coq Require Import ZArith List.
From Coq Require Import PrimFloat.
From Epsie Require Import FloatLib.
Import ListNotations.
Local Open Scope float_scope.

Definition fpi : float := 0x1.921fb54442d18p+1.
Definition fpio2 : float := 0x1.921fb54442d18p+0.
Definition two_over_pi : float := 0x1.45f306dc9c883p-1.
Definition pio2_1 : float := 0x1.921fb54400000p+0.     (* first 33 bits of pi/2 *)
Definition pio2_1t : float := 0x1.0b4611a626331p-34.   (* pi/2 - pio2_1 *)

(** sin and cos on [-pi/4, pi/4] *)
Definition sin_poly (r : float) : float :=
  let r2 := r * r in
  r * horner [1; -0x1.5555555555555p-3; 0x1.1111111111111p-7; -0x1.a01a01a01a01ap-13; 0x1.71de3a556c734p-19;
              -0x1.ae64567f544e4p-26; 0x1.6124613a86d09p-33; -0x1.ae7f3e733b81fp-41; 0x1.952c77030ad4ap-49] r2.
Definition cos_poly (r : float) : float :=
  let r2 := r * r in
  horner [1; -0.5; 0x1.5555555555555p-5; -0x1.6c16c16c16c17p-10; 0x1.a01a01a01a01ap-16; -0x1.27e4fb7789f5cp-22;
          0x1.1eed8eff8d898p-29; -0x1.93974a8c07c9dp-37; 0x1.ae7f3e733b81fp-45] r2.

Definition reduce (x : float) : Z * float :=
  let k := Zfloor (x * two_over_pi + 0.5) in
  let kf := float_of_Z k in
  (k, (x - kf * pio2_1) - kf * pio2_1t).

Definition fsin (x : float) : float :=
  if is_nanb x then x else if PrimFloat.leb 0x1p+40 (abs x) then nan
  else let '(k, r) := reduce x in
       match (k mod 4)%Z with
       | 0%Z => sin_poly r | 1%Z => cos_poly r | 2%Z => - sin_poly r | _ => - cos_poly r
       end.
Definition fcos (x : float) : float :=
  if is_nanb x then x else if PrimFloat.leb 0x1p+40 (abs x) then nan
  else let '(k, r) := reduce x in
       match (k mod 4)%Z with
       | 0%Z => cos_poly r | 1%Z => - sin_poly r | 2%Z => - cos_poly r | _ => sin_poly r
       end.

(** atan: two halvings of the argument, then the alternating series *)
Definition atan_small (x : float) : float :=
  let x2 := x * x in
  x * horner [1; -0x1.5555555555555p-2; 0x1.999999999999ap-3; -0x1.2492492492492p-3; 0x1.c71c71c71c71cp-4;
              -0x1.745d1745d1746p-4; 0x1.3b13b13b13b14p-4; -0x1.1111111111111p-4; 0x1.e1e1e1e1e1e1ep-5;
              -0x1.af286bca1af28p-5; 0x1.8618618618618p-5; -0x1.642c8590b2164p-5; 0x1.47ae147ae147bp-5;
              -0x1.2f684bda12f68p-5] x2.
Definition halve (x : float) : float := x / (1 + sqrt (1 + x * x)).
Definition atan_unit (x : float) : float := 4 * atan_small (halve (halve x)).      (* |x| <= 1 *)
Definition fatan (x : float) : float :=
  if is_nanb x then x
  else if PrimFloat.leb (abs x) 1 then atan_unit x
  else if PrimFloat.ltb 0 x then fpio2 - atan_unit (1 / x) else - fpio2 - atan_unit (1 / x).

(** numpy.arctan2 (finite arguments; signed zeros of y are not distinguished) *)
Definition fatan2 (y x : float) : float :=
  if is_nanb x then x else if is_nanb y then y
  else if PrimFloat.ltb 0 x then fatan (y / x)
  else if PrimFloat.ltb x 0 then (if PrimFloat.ltb y 0 then fatan (y / x) - fpi else fatan (y / x) + fpi)
  else if PrimFloat.ltb 0 y then fpio2 else if PrimFloat.ltb y 0 then - fpio2 else 0.

(** numpy.arccos: NaN outside [-1, 1] *)
Definition facos (x : float) : float :=
  if is_nanb x then x
  else if PrimFloat.ltb 1 (abs x) then nan
  else fatan2 (sqrt ((1 - x) * (1 + x))) x.

(** python's float modulo for a positive modulus: result in [0, m] (m itself when x is a tiny negative) *)
Definition fpymod (x m : float) : float :=
  if is_nanb x then x
  else let r := x - ffloor (x / m) * m in
       if PrimFloat.ltb r 0 then r + m else if PrimFloat.ltb m r then r - m else r.

(** ** erf, erfc, normal masses *)
Definition two_inv_sqrtpi : float := 0x1.20dd750429b6dp+0.
Definition inv_sqrtpi : float := 0x1.20dd750429b6dp-1.
Definition inv_sqrt2 : float := 0x1.6a09e667f3bccp-1.

(** erf(x) = 2/sqrt(pi) exp(-x^2) sum_n 2^n x^(2n+1) / (1*3*...*(2n+1)): all terms positive *)
Fixpoint erf_series (fuel : nat) (n : float) (term acc x2 : float) : float :=
  match fuel with
  | O => acc
  | S f => let term' := term * (2 * x2) / (2 * n + 3) in
           erf_series f (n + 1) term' (acc + term') x2
  end.
Definition ferf_pos (x : float) : float :=          (* 0 <= x <= 3 *)
  two_inv_sqrtpi * fexp (- (x * x)) * erf_series 90 0 x x (x * x).

(** continued fraction for erfc, x >= 2:  erfc x = exp(-x^2)/sqrt(pi) / (x + (1/2)/(x + 1/(x + (3/2)/(x + ...)))) *)
Fixpoint erfc_cf (k : nat) (x : float) (kf : float) : float :=
  match k with
  | O => x
  | S k' => x + (kf / 2) / erfc_cf k' x (kf + 1)
  end.
Definition ferfc_big (x : float) : float := inv_sqrtpi * fexp (- (x * x)) / erfc_cf 120 x 1.

Definition ferf (x : float) : float :=
  if is_nanb x then x
  else let a := abs x in
       let v := if PrimFloat.ltb a 2.5 then ferf_pos a else 1 - ferfc_big a in
       if PrimFloat.ltb x 0 then - v else v.
Definition ferfc (x : float) : float :=
  if is_nanb x then x
  else if PrimFloat.ltb x 0 then 2 - (if PrimFloat.ltb (- x) 2.5 then 1 - ferf_pos (- x) else ferfc_big (- x))
  else if PrimFloat.ltb x 2.5 then 1 - ferf_pos x
  else if PrimFloat.ltb 27 x then 0 else ferfc_big x.

(** standard normal cdf and the mass of (a, b], arranged to avoid cancellation in the tails *)
Definition fPhi (x : float) : float := 0.5 * ferfc (- (x * inv_sqrt2)).
Definition fmass (a b : float) : float :=
  if is_nanb a then a else if is_nanb b then b
  else if PrimFloat.leb 0 a then 0.5 * (ferfc (a * inv_sqrt2) - ferfc (b * inv_sqrt2))
  else if PrimFloat.leb b 0 then 0.5 * (ferfc (- (b * inv_sqrt2)) - ferfc (- (a * inv_sqrt2)))
  else 0.5 * (ferf (b * inv_sqrt2) + ferf (- (a * inv_sqrt2))).
Definition ln_sqrt_2pi : float := 0x1.d67f1c864beb4p-1.
