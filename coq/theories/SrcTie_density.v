(** Source tie for the public wrappers [BaseProposal.jump] and [BaseProposal.logpdf] ([Gen/Src.v],
    regenerated from /repo on every run): each hands over to the family's private method exactly when
    the proposal's clock says "jump" - in EVERY state of the clock, before, on, off and after the
    interval's duration.  Hence a density is reported exactly for the moves that are drawn (C02: the
    reported density is the law of the jump also for slow proposals), and a copied point contributes
    no term (C15). *)
From Coq Require Import ZArith Bool Lia.
From Epsie Require Import Base Clock Gen.Src SrcTie_clock.
Local Open Scope Z_scope.

Lemma src_jump_delegates_eq (k D n : Z) (s : option Z) :
  src_jump_delegates k D n s = src_call_jump k D n s.
Proof.
  unfold src_jump_delegates, src_call_jump. rewrite ?negb_involutive. try reflexivity.
  all: destruct s; cbv zeta; repeat (match goal with |- context [if ?b then _ else _] => destruct b eqn:? end); try reflexivity; lia.
Qed.

Lemma src_logpdf_delegates_eq (k D n : Z) (s : option Z) :
  src_logpdf_delegates k D n s = src_call_jump k D n s.
Proof.
  unfold src_logpdf_delegates, src_call_jump. rewrite ?negb_involutive. try reflexivity.
  all: destruct s; cbv zeta; repeat (match goal with |- context [if ?b then _ else _] => destruct b eqn:? end); try reflexivity; lia.
Qed.

Lemma src_jump_delegates_tie (p : pclock) : (1 <= pk p)%nat ->
  src_jump_delegates (Z.of_nat (pk p)) (pD p) (Z.of_nat (pn p)) (pstart p) = call_jump p.
Proof. intros Hk. etransitivity; [apply src_jump_delegates_eq | now apply src_call_jump_tie]. Qed.

Lemma src_logpdf_delegates_tie (p : pclock) : (1 <= pk p)%nat ->
  src_logpdf_delegates (Z.of_nat (pk p)) (pD p) (Z.of_nat (pn p)) (pstart p) = call_jump p.
Proof. intros Hk. etransitivity; [apply src_logpdf_delegates_eq | now apply src_call_jump_tie]. Qed.

(** the density is reported for exactly the moves that are drawn: for all integers, not only clocks *)
Lemma src_logpdf_follows_jump (k D n : Z) (s : option Z) :
  src_logpdf_delegates k D n s = src_jump_delegates k D n s.
Proof. transitivity (src_call_jump k D n s); [apply src_logpdf_delegates_eq | symmetry; apply src_jump_delegates_eq]. Qed.
