(** Numeric signature of the kernels.  Every numeric kernel of the model is ONE
    Gallina definition over this class; it is instantiated with Coq's real numbers
    ([NumR], what the theorems are about) and with primitive binary64 floats
    ([NumF], what [vm_compute] runs against the implementation).  No [Reals] here. *)
From Coq Require Import ZArith List.
Import ListNotations.

Class Num (T : Type) := {
  nzero : T; none : T;
  nadd : T -> T -> T; nsub : T -> T -> T; nmul : T -> T -> T; ndiv : T -> T -> T; nopp : T -> T;
  nexp : T -> T; nln : T -> T; nsqrt : T -> T;
  nltb : T -> T -> bool; nleb : T -> T -> bool; neqb : T -> T -> bool;
  nisnan : T -> bool; nisneginf : T -> bool;
  nofZ : Z -> T
}.

Declare Scope num_scope.
Delimit Scope num_scope with num.
Infix "+" := nadd : num_scope.
Infix "-" := nsub : num_scope.
Infix "*" := nmul : num_scope.
Infix "/" := ndiv : num_scope.
Notation "- x" := (nopp x) : num_scope.

Section Derived.
  Context {T : Type} `{Num T}.
  Local Open Scope num_scope.
  Definition npow (x y : T) : T := nexp (y * nln x).          (* x ** y for x > 0 *)
  Definition nsum (l : list T) : T := fold_left nadd l nzero.  (* python sum(): ((0 + a) + b) + ... *)
  Definition nmax (x y : T) : T := if nltb x y then y else x.
  Definition nmin (x y : T) : T := if nltb y x then y else x.
  Definition ntwo : T := none + none.
End Derived.
