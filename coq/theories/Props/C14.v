(** C14 — adaptive proposals stay usable: finite, admissible scales.  Statements only; proofs in
    [Adapt_proofs].  [_partial]: float overflow (sinh at kappa ~ 710) and the actual number of
    retries of the rejection loops cannot be exhibited by the real-number model; they are
    explored on the real code by the harness and recorded as known findings where they fail. *)
From Coq Require Import Reals Lra Lia ZArith List Bool.
From Epsie Require Import Base Num NumR Adapt Adapt_proofs.
Import ListNotations.
Local Open Scope R_scope.

(** Veitch: widths never become negative (the guard), whatever the history ... *)
Theorem C14_veitch_nonneg :
  forall (p : @veitch R) nsteps acc,
  Forall (fun s => 0 <= s) (v_std p) -> Forall (fun s => 0 <= s) (v_std (veitch_update p nsteps acc)).
Proof. exact veitch_nonneg. Qed.
Print Assumptions C14_veitch_nonneg.

(** ... and one step widens a component by at most (1-target) * factor * prior width / 10: after n
    steps every width is at most that of the always-accepted history, hence finite. *)
Theorem C14_veitch_step_bound :
  forall (p : @veitch R), 0 < v_target p < 1 -> Forall (fun d => 0 <= d) (v_deltas p) ->
  length (v_std p) = length (v_deltas p) ->
  forall nsteps acc, veitch_window p nsteps = true -> 0 <= veitch_factor p nsteps ->
  Forall2 (fun sd s' => s' <= fst sd + (1 - v_target p) * veitch_factor p nsteps * snd sd / 10)
          (combine (v_std p) (v_deltas p)) (v_std (veitch_update p nsteps acc)).
Proof. exact veitch_step_bound. Qed.
Print Assumptions C14_veitch_step_bound.

(** Sivia-Skilling: widths stay positive (third clause of [C13_ss_direction]) and never exceed the
    cap of the bounded / angular / discrete variants. *)
Theorem C14_ss_cap :
  forall (p : @ss R) nsteps (acc : bool) cap,
  s_cap p = Some cap -> Forall (fun s => 0 < s <= cap) (s_std p) ->
  0 < ss_alpha (s_nacc p + (if acc then 1 else 0)) (nsteps - (s_start p - 1) + 1) (s_target p) ->
  Forall (fun s => 0 < s <= cap) (s_std (ss_update p nsteps acc)).
Proof. exact ss_cap_invariant. Qed.
Print Assumptions C14_ss_cap.

(** Andrieu-Thoms: the diagonal second moment and the widths stay positive ... *)
Theorem C14_at_admissible :
  forall (p : @at_state R), a_decayc p = exp (- (6 / 10) * ln (IZR (a_T p))) ->
  forall nsteps ar x, length x = length (a_mean p) -> length (a_ucov p) = length (a_mean p) ->
  Forall (fun u => 0 < u) (a_ucov p) -> Forall (fun s => 0 < s) (a_std p) ->
  Forall (fun u => 0 < u) (a_ucov (at_update p nsteps ar x)) /\ Forall (fun s => 0 < s) (a_std (at_update p nsteps ar x)).
Proof. exact at_admissible. Qed.
Print Assumptions C14_at_admissible.

(** ... and all Robbins-Monro log-scales (Andrieu-Thoms lambda, eigenvalue scale, kappa) move by less
    than 1 per step for acceptance ratios in [0,1]: finite after any finite history; kappa > 0. *)
Theorem C14_log_scale_envelope :
  forall (p : @rm_state R), r_decayc p = exp (- (6 / 10) * ln (IZR (r_T p))) ->
  forall nsteps ar, 0 <= ar <= 1 -> 0 < r_target p < 1 ->
  Rabs (r_log (eig_update p nsteps ar) - r_log p) < 1 /\ Rabs (r_log (kappa_update p nsteps ar) - r_log p) < 1.
Proof. exact rm_step_envelope. Qed.
Print Assumptions C14_log_scale_envelope.

Theorem C14_kappa_positive :
  forall (p : @rm_state R), r_decayc p = exp (- (6 / 10) * ln (IZR (r_T p))) ->
  forall nsteps ar, rm_window p nsteps = true -> 0 < kappa_of (kappa_update p nsteps ar).
Proof. intros p Hd nsteps ar Hw. now destruct (kappa_direction p Hd nsteps ar Hw) as (_ & _ & H). Qed.
Print Assumptions C14_kappa_positive.

(** The rejection loops of the bounded families: one draw is accepted with probability
    acc = Phi((hi - y)/s) - Phi((lo - y)/s); the expected number of draws per jump is 1/acc
    ([C02_rejection_series] with m = p), and it never decreases when the scale s grows - so along
    any adaptation history the cost of a jump is bounded by the cost at the largest scale reached. *)
From Epsie Require Import Dens_cont_proofs.
Theorem C14_retry_mass_monotone :
  forall (Phi : R -> R), (forall x y, x < y -> Phi x < Phi y) ->
  forall lo hi y s1 s2 : R, 0 < s1 <= s2 -> lo <= y <= hi -> lo < hi ->
  acc Phi lo hi s2 y <= acc Phi lo hi s1 y /\ / acc Phi lo hi s1 y <= / acc Phi lo hi s2 y.
Proof.
  intros Phi Hinc lo hi y s1 s2 Hs Hy Hw. split; [apply acc_antitone|apply expected_draws_monotone]; assumption.
Qed.
Print Assumptions C14_retry_mass_monotone.

(** ** Positive-semidefinite covariance: the second moment and the covariance the full Andrieu-Thoms
    proposals draw from, and the recursive covariance of the adaptive eigenvector proposals (whose
    eigenvalues are the jump scales), stay positive semidefinite through every update, for every
    acceptance history and every sequence of positions. *)
From Epsie Require Import AdaptM AdaptM_proofs.

Theorem C14_at_fullcov_psd :
  forall (p : @atf_state R) n nsteps ar x,
  f_decayc p = exp (- (6 / 10) * ln (IZR (f_T p))) ->
  length x = n -> length (f_mean p) = n -> psd n (f_ucov p) -> psd n (f_cov p) ->
  psd n (f_ucov (atf_update p nsteps ar x)) /\ psd n (f_cov (atf_update p nsteps ar x)).
Proof. exact atf_cov_psd. Qed.
Print Assumptions C14_at_fullcov_psd.

Theorem C14_at_componentwise_fullcov_psd :
  forall (p : @atcf_state R) n nsteps ars x,
  g_decayc p = exp (- (6 / 10) * ln (IZR (g_T p))) ->
  length x = n -> length (g_mean p) = n -> length (g_loglam p) = n -> length ars = n ->
  psd n (g_ucov p) -> (forall w, length w = n -> 0 <= @quad R _ (g_cov p) w) ->
  psd n (g_ucov (atcf_update p nsteps ars x))
  /\ forall w, length w = n -> 0 <= @quad R _ (g_cov (atcf_update p nsteps ars x)) w.
Proof. exact atcf_cov_psd. Qed.
Print Assumptions C14_at_componentwise_fullcov_psd.

Theorem C14_eigenvector_covariance_psd :
  forall (p : @rm_state R) n cov mu nsteps ar x,
  (1 <= r_start p)%Z -> length x = n -> length mu = n -> psd n cov ->
  psd n (fst (fst (eigc_update p cov mu nsteps ar x))) /\ length (snd (fst (eigc_update p cov mu nsteps ar x))) = n.
Proof. exact eigc_psd. Qed.
Print Assumptions C14_eigenvector_covariance_psd.

(** the exact quadratic-form identity behind them: w'U'w = (1-d) w'Uw + d (df.w)^2 *)
Theorem C14_second_moment_step :
  forall (d : R) (U : list (list R)) (df w : list R), length df = length w -> shaped (length w) U ->
  @quad R _ (@ucov_step R _ d U df) w = (1 - d) * @quad R _ U w + d * (@vdot R _ df w) ^ 2.
Proof. exact ucov_step_quad. Qed.
Print Assumptions C14_second_moment_step.

(** non-vacuity: the identity matrix, the initial second moment, is positive semidefinite *)
Example C14_identity_psd : psd 2 [[1; 0]; [0; 1]].
Proof.
  split; [split; [reflexivity|repeat constructor]|]. intros [|a [|b [|c w]]] Hw; try discriminate.
  unfold quad, mvec, vdot. cbn. nra.
Qed.

(** along whole histories (every reachable adaptation state) *)
Theorem C14_at_fullcov_psd_forever :
  forall n p (hist : list (Z * R * list R)),
  Forall (fun h => length (snd h) = n) hist -> atf_ok n p ->
  atf_ok n (fold_left (fun q h => atf_update q (fst (fst h)) (snd (fst h)) (snd h)) hist p).
Proof. exact atf_ok_forever. Qed.
Print Assumptions C14_at_fullcov_psd_forever.

Theorem C14_eigenvector_covariance_psd_forever :
  forall n (p : @rm_state R) cov mu (hist : list (Z * R * list R)),
  (1 <= r_start p)%Z -> Forall (fun h => length (snd h) = n) hist -> length mu = n -> psd n cov ->
  psd n (fst (fst (eigc_run p (cov, mu) hist))) /\ length (snd (fst (eigc_run p (cov, mu) hist))) = n.
Proof. exact eigc_psd_forever. Qed.
Print Assumptions C14_eigenvector_covariance_psd_forever.

(** Refuted for the code as it is (known finding D33, `bounded_eigenvector_corner_stall`): the
    premise of the retry-mass theorems - an admissible segment of positive length - fails at a
    corner of the box for a direction that leaves the box both ways: the set of admissible
    displacements of the rejection loop of [BoundedEigenvector._jump] is the single point 0, so no
    draw is ever accepted (the implementation's face tolerance widens it to ~1e-5, i.e. ~1e5
    expected draws).  Witness: the box [-3,5]x[0,1], the corner (-3,1), the direction (1,1). *)
Theorem C14_bounded_eigenvector_corner_refuted :
  exists lo1 hi1 lo2 hi2 x y vx vy : R,
    lo1 < hi1 /\ lo2 < hi2 /\ lo1 <= x <= hi1 /\ lo2 <= y <= hi2 /\ (vx <> 0 \/ vy <> 0)
    /\ forall t, t <> 0 -> ~ (lo1 <= x + t * vx <= hi1 /\ lo2 <= y + t * vy <= hi2).
Proof.
  exists (-3), 5, 0, 1, (-3), 1, 1, 1.
  split; [lra|]. split; [lra|]. split; [lra|]. split; [lra|]. split; [left; lra|].
  intros t Ht [H1 H2]. destruct (Rtotal_order t 0) as [Hn|[Hz|Hp]]; lra.
Qed.
Print Assumptions C14_bounded_eigenvector_corner_refuted.

(** Refuted for the code as it is (known finding D19, `at_bounded_runaway`): "scale parameters stay
    ... admissible" has no bound uniform in the configuration.  For every target rate, initial
    log-scale and bound M there is an adaptation duration T such that the always-accepted history
    (what a flat bounded target or a level at beta = 0 produces) carries the log-scale of the
    Robbins-Monro adapted families above M within the first quarter of the window
    (the log-scale grows like T^0.4): nothing caps it, and the rejection loops of the bounded /
    angular variants then need a number of draws that grows without bound. *)
From Epsie Require Import Adapt_unbounded_proofs.
Theorem C14_rm_scale_unbounded_refuted :
  forall target r0 M : R, 0 < target < 1 ->
  exists (T : Z) (m : nat),
    let p := {| r_log := r0; r_T := T; r_target := target; r_start := 1; r_decayc := exp (- (6 / 10) * ln (IZR T)) |} in
    (1 < T)%Z /\ M < r_log (accept_run p m).
Proof. exact rm_scale_unbounded. Qed.
Print Assumptions C14_rm_scale_unbounded_refuted.
