(** C01 — each chain step is an exact Metropolis-Hastings move at its temperature. Statements only;
    proofs in [MH_proofs].  The kernel [mh_step]/[mh_decide]/[mh_logar] is the single definition
    of [MH.v]; here it is read over the real numbers. *)
From Coq Require Import Reals Lra List.
From Epsie Require Import Num NumR MH MH_proofs.
Import ListNotations.
Local Open Scope R_scope.

(** With a uniform u in [0,1) the step accepts iff u <= min(1, e^logar) and records exactly that
    minimum; hence it accepts with probability exactly min(1, e^logar) (the accepted uniforms
    form the interval [0, min(1,e^logar)] cut to [0,1)); a uniform is drawn only when logar <= 0. *)
Theorem C01_accept_region :
  forall logar u : R, 0 <= u < 1 ->
  exists acc ar used, mh_decide logar u = Decided acc ar used
    /\ ar = Rmin 1 (exp logar) /\ (acc = true <-> u <= Rmin 1 (exp logar))
    /\ (used = false -> logar > 0).
Proof. exact accept_region. Qed.
Print Assumptions C01_accept_region.

(** e^logar is the Metropolis-Hastings ratio p(x')L(x')^beta q(x|x') / (p(x)L(x)^beta q(x'|x)) ... *)
Theorem C01_ratio_form :
  forall p' L' p L beta qrev qfwd : R,
  0 < p' -> 0 < L' -> 0 < p -> 0 < L -> 0 < qrev -> 0 < qfwd ->
  exp (mh_logar (ln p') (ln L') (ln p) (ln L) beta (Some (ln qrev, ln qfwd)))
  = (p' * Rpower L' beta * qrev) / (p * Rpower L beta * qfwd).
Proof. exact ratio_form. Qed.
Print Assumptions C01_ratio_form.

(** ... without the q-factors when the joint proposal is symmetric. *)
Theorem C01_ratio_form_symmetric :
  forall p' L' p L beta : R, 0 < p' -> 0 < L' -> 0 < p -> 0 < L ->
  exp (mh_logar (ln p') (ln L') (ln p) (ln L) beta None) = (p' * Rpower L' beta) / (p * Rpower L beta).
Proof. exact ratio_form_symmetric. Qed.
Print Assumptions C01_ratio_form_symmetric.

(** Joint proposals: the reported joint density is the product of the constituents' densities
    (over disjoint parameters); a constituent that does not jump on this iteration contributes 1. *)
Theorem C01_joint_product :
  forall qs : list (option R),
  Forall (fun q => match q with Some v => 0 < v | None => True end) qs ->
  exp (joint_logq (map (option_map ln) qs))
  = fold_right (fun q acc => (match q with Some v => v | None => 1 end) * acc) 1 qs.
Proof. exact joint_logq_product. Qed.
Print Assumptions C01_joint_product.

(** A proposal of zero prior probability (logp = -inf) is rejected whatever else holds — for every
    numeric instance, the floats in particular — with recorded ratio 0 and no uniform drawn. *)
Theorem C01_zero_prior_rejected :
  forall (T : Type) (N : Num T) (logp logl clogp clogl beta : T) h (u : T),
  nisneginf logp = true -> mh_step logp logl clogp clogl beta h u = Decided false nzero false.
Proof. intros. unfold mh_step. now rewrite H. Qed.
Print Assumptions C01_zero_prior_rejected.

(** Over the reals the step never raises "NaN acceptance". *)
Theorem C01_no_nan_over_R : forall logar u : R, mh_decide logar u <> NaNAcceptance.
Proof. exact no_nan_over_R. Qed.
Print Assumptions C01_no_nan_over_R.

(** Detailed balance of propose-then-accept for f = p L^beta and any proposal law q ... *)
Theorem C01_detailed_balance :
  forall A B : R, 0 < A -> 0 < B -> A * Rmin 1 (B / A) = B * Rmin 1 (A / B).
Proof. exact detailed_balance_core. Qed.
Print Assumptions C01_detailed_balance.

(** ... hence f is stationary for the step's transition kernel [K] (proposal, acceptance as
    proved above, rejected mass staying put), exactly, on every finite state space. *)
Theorem C01_stationary_finite :
  forall (X : Type) (eq_dec : forall x y : X, {x = y} + {x <> y}) (xs : list X),
  NoDup xs ->
  forall (f : X -> R) (q : X -> X -> R),
  (forall x, In x xs -> 0 < f x) -> (forall x y, 0 <= q x y) -> (forall x y, q x y = 0 -> q y x = 0) ->
  forall y, In y xs -> sum X xs (fun x => f x * K X eq_dec xs f q x y) = f y.
Proof. exact stationary. Qed.
Print Assumptions C01_stationary_finite.

Theorem C01_kernel_rows :
  forall (X : Type) (eq_dec : forall x y : X, {x = y} + {x <> y}) (xs : list X),
  NoDup xs -> forall (f : X -> R) (q : X -> X -> R) x, In x xs -> sum X xs (K X eq_dec xs f q x) = 1.
Proof. exact K_rows. Qed.
Print Assumptions C01_kernel_rows.

(** That a rejected step leaves the chain exactly where it was is a statement about the
    machine: [Props/C08.v], [C08_step_row_cases]. *)

(** Non-vacuity: a three-state space with an asymmetric proposal matrix. *)
Example C01_example :
  let xs := [0%nat; 1%nat; 2%nat] in
  let f := fun x : nat => match x with 0%nat => 1 | 1%nat => 2 | _ => 4 end in
  let q := fun x y : nat => match x, y with 0%nat, 1%nat => 1 | 1%nat, 0%nat => /4 | 1%nat, 2%nat => 3 * /4 | 2%nat, 1%nat => 1 | _, _ => 0 end in
  forall y, In y xs -> sum nat xs (fun x => f x * K nat Nat.eq_dec xs f q x y) = f y.
Proof.
  intros xs f q. apply stationary.
  - repeat constructor; cbn; intuition discriminate.
  - intros x Hx. unfold f. destruct x as [|[|[|]]]; lra.
  - intros x y. unfold q. destruct x as [|[|[|]]], y as [|[|[|]]]; lra.
  - intros x y. unfold q. destruct x as [|[|[|]]], y as [|[|[|]]]; lra.
Qed.
