(** C18, source tie: a census of /repo's sources as they are today ([Gen/SrcCalls.v], regenerated
    on every run by tools/py2coq.py over every file of epsie/): the user's model is called at
    exactly three places - the start-position setter and [Chain.step], each once and outside any
    loop (the two places where the machine's ghost call log grows: [set_start], [step]), and the
    virtual moves of the componentwise Andrieu-Thoms adaptation (inside its loop over the
    parameters, in a private helper of [_update] that the census folds into its only caller; counted
    separately by the harness) - and the model object is read nowhere else
    than in the constructors that hand it to the chains; [Chain.step] itself is called from exactly
    two loops: the sampler's iteration loop and the parallel-tempered chain's loop over its levels.
    A new call site, an alias of the model, or a second call inside a step changes these constants. *)
From Coq Require Import String List.
From Epsie Require Import Gen.SrcCalls.
Import ListNotations.
Local Open Scope string_scope.

Theorem C18_src_model_call_sites :
  src_model_call_sites
  = [("epsie/chain/chain.py:Chain.start_position", 0%nat); ("epsie/chain/chain.py:Chain.step", 0%nat);
     ("epsie/proposals/normal.py:ATAdaptiveSupport._update", 1%nat)].
Proof. reflexivity. Qed.
Print Assumptions C18_src_model_call_sites.

Theorem C18_src_model_handed_on :
  src_model_handed_on
  = ["epsie/chain/chain.py:Chain.__init__"; "epsie/chain/ptchain.py:ParallelTemperedChain.__init__";
     "epsie/samplers/base.py:BaseSampler.model"; "epsie/samplers/mhsampler.py:MetropolisHastingsSampler.__init__";
     "epsie/samplers/mhsampler.py:MetropolisHastingsSampler.create_chains";
     "epsie/samplers/ptsampler.py:ParallelTemperedSampler.__init__";
     "epsie/samplers/ptsampler.py:ParallelTemperedSampler.create_chains"].
Proof. reflexivity. Qed.
Print Assumptions C18_src_model_handed_on.

Theorem C18_src_step_call_sites :
  src_step_call_sites
  = [("epsie/chain/ptchain.py:ParallelTemperedChain.step", 1%nat); ("epsie/samplers/base.py:_evolve_chain", 1%nat)].
Proof. reflexivity. Qed.
Print Assumptions C18_src_step_call_sites.
