(** C07, source tie.  Chains may be handed one and the same state object (a checkpoint set on several
    samplers, a warm start from another run): they stay independent of each other because [Chain.set_state]
    hands the proposals a deep copy of the proposals' state, and [Chain.state] stores one - read off /repo's
    chain.py on every run ([Gen/SrcState.v], tools/py2coq_state.py).  With these flags in place of the model's,
    whatever is done to other samplers - also ones loaded from the very same state object - never changes a
    sampler's contents ([no_coupling], [Alias_proofs]); without them [Props/C16.v]'s
    [C16_refuted_without_copy_coupling] is a counterexample.  Statement only. *)
From Coq Require Import List Bool.
From Epsie Require Import Base Alias Alias_proofs Gen.SrcState.

Theorem C07_src_loaded_states_do_not_couple_chains :
  forall (ops : list op) (w : world) (s : nat),
  Tagged w -> s < length (regs w) -> Forall (fun o => target o <> s) ops ->
  let cp := src_chain_state_deepcopies && src_chain_set_state_deepcopies in
  sampler_contents (execs cp src_reset_deepcopies w ops) s = sampler_contents w s.
Proof. exact no_coupling. Qed.
Print Assumptions C07_src_loaded_states_do_not_couple_chains.
