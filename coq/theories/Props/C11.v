(** C11 — transdimensional moves are reversible for the intended target.
    Statements only; proofs in [TD_rev_proofs] (and [MH_proofs], [Dens_discrete_proofs] for the
    pieces they build on).  f = prior x likelihood^beta; C(x) = number of ways of choosing as many
    active components as x has; qc = the composite density the code reports; qt = the true law of
    the composite jump, which also contains the uniform choice of the components switched. *)
From Coq Require Import Reals ZArith List Bool.
From Epsie Require Import Num NumR Dens MH MH_proofs TD_rev_proofs.
Import ListNotations.
Local Open Scope R_scope.

(** which terms the reported composite density contains: birth densities only when the dimension
    grows, and then exactly for the newly active components; in-model densities for the components
    active on both sides; nothing at all if the index jump is impossible *)
Theorem C11_logq_no_birth_when_not_growing : forall {T} (cur prop : list bool) (births inmodel : list (option T)),
  td_terms false cur prop births inmodel = [].
Proof. exact @td_no_birth_terms. Qed.
Theorem C11_logq_birth_terms : forall {T} (cur prop : list bool) (births inmodel : list (option T)),
  length prop = length cur -> length births = length cur -> length inmodel = length cur ->
  td_terms true cur prop births inmodel
  = map snd (filter (fun cb => negb (fst (fst cb)) && snd (fst cb)) (combine (combine cur prop) births)).
Proof. exact @td_birth_terms_spec. Qed.
Theorem C11_logq_inmodel_terms : forall {T} (cur prop : list bool) (inmodel : list (option T)),
  length prop = length cur -> length inmodel = length cur ->
  td_inmodel cur prop inmodel = map snd (filter (fun cm => fst (fst cm) && snd (fst cm)) (combine (combine cur prop) inmodel)).
Proof. exact @td_inmodel_spec. Qed.

(** C(N-k,d) C(N,k) = C(k+d,d) C(N,k+d) *)
Theorem C11_binomial : forall N k d : nat, (k + d <= N)%nat -> Cb (N - k) d * Cb N k = Cb (k + d) d * Cb N (k + d).
Proof. exact binomial_identity. Qed.

(** the step's acceptance ratio for a move that switches d components on / off:
    f(x') C(x) qt(x|x') / (f(x) C(x') qt(x'|x)) *)
Theorem C11_acceptance_form_birth : forall (N k d : nat) (p' L' p L beta qc_fwd qc_rev : R),
  (k + d <= N)%nat -> 0 < p' -> 0 < L' -> 0 < p -> 0 < L -> 0 < qc_fwd -> 0 < qc_rev ->
  let qt_fwd := qc_fwd / Cb (N - k) d in
  let qt_rev := qc_rev / Cb (k + d) d in
  exp (mh_logar (ln p') (ln L') (ln p) (ln L) beta (Some (ln qc_rev, ln qc_fwd)))
  = ((p' * Rpower L' beta) * Cb N k * qt_rev) / ((p * Rpower L beta) * Cb N (k + d) * qt_fwd).
Proof. exact acceptance_form_birth. Qed.
Theorem C11_acceptance_form_death : forall (N k d : nat) (p' L' p L beta qc_fwd qc_rev : R),
  (k + d <= N)%nat -> 0 < p' -> 0 < L' -> 0 < p -> 0 < L -> 0 < qc_fwd -> 0 < qc_rev ->
  let qt_fwd := qc_fwd / Cb (k + d) d in
  let qt_rev := qc_rev / Cb (N - k) d in
  exp (mh_logar (ln p') (ln L') (ln p) (ln L) beta (Some (ln qc_rev, ln qc_fwd)))
  = ((p' * Rpower L' beta) * Cb N (k + d) * qt_rev) / ((p * Rpower L beta) * Cb N k * qt_fwd).
Proof. exact acceptance_form_death. Qed.

(** hence detailed balance for g = f / C with the true composite law (a = min(1, .) is what the
    step accepts with, C01): the chain is reversible for f / C *)
Theorem C11_reversible : forall gx gx' qf qr : R, 0 < gx -> 0 < gx' -> 0 < qf -> 0 < qr ->
  gx * qf * Rmin 1 ((gx' * qr) / (gx * qf)) = gx' * qr * Rmin 1 ((gx * qf) / (gx' * qr)).
Proof. exact td_detailed_balance. Qed.

Print Assumptions C11_logq_no_birth_when_not_growing.
Print Assumptions C11_logq_birth_terms.
Print Assumptions C11_logq_inmodel_terms.
Print Assumptions C11_binomial.
Print Assumptions C11_acceptance_form_birth.
Print Assumptions C11_acceptance_form_death.
Print Assumptions C11_reversible.

(** Non-vacuity: N = 4, k = 1, d = 2 *)
Example C11_example : Cb (4 - 1) 2 * Cb 4 1 = Cb (1 + 2) 2 * Cb 4 (1 + 2).
Proof. apply binomial_identity. auto with arith. Qed.
