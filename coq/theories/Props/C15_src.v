(** C15, source tie: the jump-interval clock as it is written in /repo's base.py today
    ([Gen/Src.v], regenerated on every run) IS the model's clock, for every state.
    Statements only; proofs in [SrcTie_clock]. *)
From Coq Require Import ZArith Bool.
From Epsie Require Import Base Clock Gen.Src SrcTie_clock.
Local Open Scope Z_scope.

Theorem C15_src_nsteps :
  forall p : pclock, src_nsteps (Z.of_nat (pk p)) (Z.of_nat (pn p)) = nsteps p.
Proof. exact src_nsteps_tie. Qed.
Print Assumptions C15_src_nsteps.

Theorem C15_src_call_jump :
  forall p : pclock, (1 <= pk p)%nat ->
  src_call_jump (Z.of_nat (pk p)) (pD p) (Z.of_nat (pn p)) (pstart p) = call_jump p.
Proof. exact src_call_jump_tie. Qed.
Print Assumptions C15_src_call_jump.

(** [update]: [_update] is called iff [_call_jump()], and the counter advances by one whatever happens *)
Theorem C15_src_update :
  forall p : pclock, (1 <= pk p)%nat ->
  src_update (Z.of_nat (pk p)) (pD p) (Z.of_nat (pn p)) (pstart p) = (call_jump p, Z.of_nat (pn (tick p))).
Proof. exact src_update_tie. Qed.
Print Assumptions C15_src_update.
