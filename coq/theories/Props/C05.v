(** C05 — resuming from a saved state continues exactly as the uninterrupted run.
    Statements only; proofs in [Resume_proofs] (chain / parallel-tempered machine) and
    [PropState_proofs] (what each proposal family saves and restores). *)
From Coq Require Import String List Bool ZArith.
From Epsie Require Import Base Machine Machine_proofs PT_proofs Resume_proofs PropState PropState_proofs.
Import ListNotations.

Section C05.
  Variable V : Type.
  Variable isneginf isnan : V -> bool.
  Variable vzero : V.
  Variable comps : list (list nat).
  Notation ptchain := (ptchain V).
  Notation run_steps := (run_steps V isneginf vzero).
  Notation restore := (Resume_proofs.restore V isnan vzero comps).
  Notation RInv := (RInv V vzero).
  Notation Active := (Active V isnan comps).
  Notation PTreq := (PTreq V).
  Notation same_record := (same_record V vzero).
  Notation run_trace := (run_trace V isneginf vzero).

  (** Loading the state of [p] into ANY ladder [q0] of the same shape (freshly constructed, other
      seed, no start position, or one that already ran) gives a ladder that is resume-equivalent to
      [p]: same iteration, current position/stats/blob, proposed position, active set on every level. *)
  Theorem C05_restore_equiv :
    forall (q0 p : ptchain), RInv p -> Active p -> length (levels V q0) = length (levels V p) -> si V q0 = si V p ->
    RInv (restore q0 p) /\ PTreq (restore q0 p) p.
  Proof. exact (restore_PTreq V isnan vzero comps). Qed.

  (** Equivalent ladders stay equivalent under every run (all input streams, sweeps included) and make
      observably the same record on every level at every iteration. *)
  Theorem C05_equiv_run :
    forall steps (p q p' : ptchain), RInv p -> RInv q -> PTreq p q -> run_steps p steps = Good p' ->
    exists q', run_steps q steps = Good q' /\ PTreq p' q' /\ RInv p' /\ RInv q'
               /\ Forall2 (Forall2 same_record) (run_trace p steps) (run_trace q steps).
  Proof. exact (run_steps_req V isneginf isnan vzero). Qed.

  (** Hence: resume from the state saved at any iteration boundary, run on - exactly the iterations
      of the uninterrupted run, and an equivalent final state. *)
  Theorem C05_resume_exact :
    forall (p q0 : ptchain) steps p', RInv p -> Active p -> length (levels V q0) = length (levels V p) -> si V q0 = si V p ->
    run_steps p steps = Good p' ->
    exists q', run_steps (restore q0 p) steps = Good q' /\ PTreq p' q' /\ RInv p' /\ RInv q'
               /\ Forall2 (Forall2 same_record) (run_trace p steps) (run_trace (restore q0 p) steps).
  Proof. exact (resume_exact V isneginf isnan vzero comps). Qed.

  (** ... and again for a resume of a resumed run, any number of times ([wf_steps]: the '_state' of
      every proposed point is its NaN pattern, C10). *)
  Theorem C05_resume_chain :
    forall rs (p q p' : ptchain), RInv p -> RInv q -> Active q -> PTreq p q ->
    Forall (fun r => fits V p (fst r) /\ wf_steps V isnan comps (snd r)) rs ->
    run_steps p (concat (map snd rs)) = Good p' ->
    exists q', resumes V isneginf isnan vzero comps q rs = Good q' /\ PTreq p' q'.
  Proof. exact (resume_chain V isneginf isnan vzero comps). Qed.
End C05.
Print Assumptions C05_restore_equiv.
Print Assumptions C05_equiv_run.
Print Assumptions C05_resume_exact.
Print Assumptions C05_resume_chain.

(** Proposals: for a table entry that is covering, set_state(state) on a fresh object of the same
    configuration reproduces the original attribute by attribute ... *)
Theorem C05_proposal_state_restores :
  forall (val : Type) (derive : string -> list (option val) -> val) (s : famspec) (o fresh : obj val),
  covering s = true -> well_derived val derive s o -> has_saved val s o ->
  (forall k, ~ In k (f_dynamic s) -> oget val fresh k = oget val o k) ->
  forall k, oget val (PropState.restore val derive s fresh (snapshot val s o)) k = oget val o k.
Proof. exact restore_agrees. Qed.
Print Assumptions C05_proposal_state_restores.

(** ... and every entry of the family table (which the correspondence compares with the live
    classes) is covering. *)
Theorem C05_family_table_covering : forall s, In s table -> covering s = true.
Proof. exact table_entry_covering. Qed.
Print Assumptions C05_family_table_covering.

(** Non-vacuity / sensitivity: the Normal family as it was before the repair in /repo (state without
    the step counter) is not covering. *)
Theorem C05_refuted_without_clock :
  covering {| f_name := "normal"; f_dynamic := f_dynamic normal_family; f_saved := [gen]; f_derived := []; f_transient := [] |} = false.
Proof. exact normal_without_nsteps_not_covering. Qed.
Print Assumptions C05_refuted_without_clock.
