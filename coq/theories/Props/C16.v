(** C16 — a state snapshot is a value: running cannot change it, it couples nothing.
    Statements only; proofs in [Alias_proofs].  [exec true true] is the semantics of the
    (repaired) code: [state] and [set_state] deep-copy the proposals' arrays. *)
From Coq Require Import ZArith List Bool Lia.
From Epsie Require Import Base Alias Alias_proofs.
Import ListNotations.

(** After any history of operations on any samplers — in-place or rebinding adaptation updates,
    further state reads, loads, resets — every state object handed out earlier still has exactly
    the contents it had when it was read. *)
Theorem C16_snapshot_frozen :
  forall (ops : list op) (w : world) (k : nat),
  Tagged w -> k < length (states w) ->
  state_contents (execs true true w ops) k = state_contents w k /\ Tagged (execs true true w ops).
Proof. exact snapshot_frozen. Qed.
Print Assumptions C16_snapshot_frozen.

(** No coupling: whatever is done to other samplers (also ones loaded from the very same state
    object), in whatever order, a sampler's adaptive arrays are unchanged — so each evolves as a
    function of its own operations alone. *)
Theorem C16_no_coupling :
  forall (ops : list op) (w : world) (s : nat),
  Tagged w -> s < length (regs w) -> Forall (fun o => target o <> s) ops ->
  sampler_contents (execs true true w ops) s = sampler_contents w s.
Proof. exact no_coupling. Qed.
Print Assumptions C16_no_coupling.

(** Loading a state gives the sampler exactly the state's contents (in fresh arrays). *)
Theorem C16_load_gives_contents :
  forall w s k, Tagged w -> s < length (regs w) -> k < length (states w) ->
  sampler_contents (exec true true w (SetState s k)) s = state_contents w k.
Proof. exact set_state_contents. Qed.
Print Assumptions C16_load_gives_contents.

(** One step: the invariant, all existing snapshots, all stored initial values and all other
    samplers are preserved by every operation. *)
Theorem C16_every_operation :
  forall (w : world) (o : op), Tagged w ->
  Tagged (exec true true w o)
  /\ (forall k, k < length (states w) -> state_contents (exec true true w o) k = state_contents w k)
  /\ (forall s, s < length (inits w) -> init_contents (exec true true w o) s = init_contents w s)
  /\ (forall s, s <> target o -> s < length (regs w) -> sampler_contents (exec true true w o) s = sampler_contents w s)
  /\ length (regs (exec true true w o)) = length (regs w) /\ inits (exec true true w o) = inits w
  /\ length (states w) <= length (states (exec true true w o)).
Proof. exact exec_copying. Qed.
Print Assumptions C16_every_operation.

(** The code as it was (state and set_state passing references) violates both clauses as soon as a
    proposal adapts in place (Sivia-Skilling, Andrieu-Thoms) ... *)
Theorem C16_refuted_without_copy_frozen :
  let w1 := exec false true w0 (GetState 0) in
  state_contents (exec false true w1 (InPlace 0 0 [5%Z; 5%Z])) 0 <> state_contents w1 0.
Proof. exact snapshot_not_frozen_without_copy. Qed.
Print Assumptions C16_refuted_without_copy_frozen.

Theorem C16_refuted_without_copy_coupling :
  let w1 := execs false true w0 [GetState 0; SetState 0 0; SetState 1 0] in
  sampler_contents (exec false true w1 (InPlace 0 0 [9%Z; 9%Z])) 1 <> sampler_contents w1 1.
Proof. exact coupling_without_copy. Qed.
Print Assumptions C16_refuted_without_copy_coupling.

(** ... whereas families that only rebind their attributes (Veitch, eigenvector) never write an
    existing array, copying or not. *)
Theorem C16_rebinding_families_safe :
  forall cp rc (w : world) (o : op) l,
  no_inplace o -> l < length (hp w) -> hread (hp (exec cp rc w o)) l = hread (hp w) l.
Proof. exact rebind_only_frozen. Qed.
Print Assumptions C16_rebinding_families_safe.

(** Non-vacuity: a freshly constructed two-sampler world satisfies the invariant. *)
Example C16_example : Tagged w0.
Proof. exact w0_tagged. Qed.
