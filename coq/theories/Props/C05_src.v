(** C05, source tie: what every proposal family's [state] stores and what its [set_state] assigns, as
    written in /repo today ([Gen/SrcState.v], regenerated on every run by tools/py2coq_state.py), is
    the saved relation of the family table - the table [C05_family_table_covering] and
    [C05_proposal_state_restores] ([Props/C05.v]) are about.  In particular every key is stored from,
    and assigned back to, one and the same attribute, itself and not a quantity computed from it.
    Statements only; proofs in [SrcTie_state]. *)
From Coq Require Import String List Bool.
From Epsie Require Import PropState Gen.SrcState SrcTie_state.

Theorem C05_src_state_and_set_state_are_the_table :
  forall s a f, In (s, a, f) src_families ->
  forall key attr, (In (key, attr) s <-> In (key, attr) (f_saved f)) /\ (In (key, attr) a <-> In (key, attr) (f_saved f)).
Proof. exact src_family_relations. Qed.
Print Assumptions C05_src_state_and_set_state_are_the_table.

Theorem C05_src_every_family_of_the_table_is_in_the_source :
  forallb (fun f => existsb (fun x => String.eqb (f_name f) (f_name (snd x))) src_families) table = true.
Proof. exact table_has_sources. Qed.
Print Assumptions C05_src_every_family_of_the_table_is_in_the_source.

(** not vacuous: ten classes, and the step counter is stored from and assigned to [_nsteps] in each *)
Example C05_src_ten_classes_with_clock :
  length src_families = 10 /\
  forallb (fun x => let '(s, a, _) := x in pmem ("nsteps", "_nsteps")%string s && pmem ("nsteps", "_nsteps")%string a) src_families = true.
Proof. vm_compute. split; reflexivity. Qed.
