(** C19, source tie.  From /repo as it is today ([Gen/SrcState.v], [Gen/Src.v], regenerated on every run):
    the reset writes (or is followed by the recomputation of) every attribute the adaptation changes, for each
    of the seven adaptive classes; it installs deep copies of the stored initial values - the flag under which
    [C19_reset_restores_every_time] holds and without which [C19_refuted_second_reset] is a counterexample;
    and it restarts the window at [max nsteps 1], for every state of the proposal's clock.
    Statements only; proofs in [SrcTie_reset] and [Alias_proofs]. *)
From Coq Require Import String List Bool ZArith.
From Epsie Require Import Base Clock PropState Alias Alias_proofs Gen.SrcState Gen.Src SrcTie_clock SrcTie_reset.

Theorem C19_src_reset_reaches_every_adapted_attribute :
  forall r f, In (r, f) src_resets -> forall a, In a (f_dynamic f) ->
  In a clockish \/ In a (map fst r) \/ In a (map fst (f_derived f)).
Proof. exact src_reset_reaches_every_adapted_attribute. Qed.
Print Assumptions C19_src_reset_reaches_every_adapted_attribute.

Theorem C19_src_every_adaptive_family_has_a_reset :
  forallb (fun f => orb (Nat.eqb (length (adapted f)) 0) (existsb (fun x => String.eqb (f_name f) (f_name (snd x))) src_resets)) table = true.
Proof. exact adaptive_table_has_resets. Qed.
Print Assumptions C19_src_every_adaptive_family_has_a_reset.

(** the heap theorem, with the copy flags read off the source *)
Theorem C19_src_reset_restores_every_time :
  forall (ops : list op) (w : world) (s : nat),
  Tagged w -> s < length (regs w) -> s < length (inits w) ->
  let cp := src_chain_state_deepcopies && src_chain_set_state_deepcopies in
  sampler_contents (exec cp src_reset_deepcopies (execs cp src_reset_deepcopies w ops) (Reset s)) s = init_contents w s.
Proof. exact reset_restores_always. Qed.
Print Assumptions C19_src_reset_restores_every_time.

Theorem C19_src_window_restarts :
  forall p : pclock,
  let start := src_reset_start (Z.of_nat (pk p)) (Z.of_nat (pn p)) in
  (1 <= start /\ nsteps p - start + 1 <= 1 /\ (1 <= nsteps p -> nsteps p - start + 1 = 1))%Z.
Proof. exact src_reset_window. Qed.
Print Assumptions C19_src_window_restarts.

Example C19_src_seven_classes : length src_resets = 7 /\ src_reset_deepcopies = true.
Proof. vm_compute. split; reflexivity. Qed.
