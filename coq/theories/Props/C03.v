(** C03 — temperature swaps leave the joint tempered distribution invariant. Statements only;
    proofs in [SweepNum_proofs].  [sweep_code] is the code's loop, [sweep_spec] the fold of
    adjacent-exchange Metropolis kernels over an explicit configuration. *)
From Coq Require Import Reals Lra Lia List.
From Epsie Require Import Base Num NumR MH MH_proofs SweepNum SweepNum_proofs.
Import ListNotations.
Local Open Scope R_scope.

(** The loop of swap_temperatures (index array, carried loglk, uniforms consumed only when
    logar <= 0) computes exactly the permutation, the acceptance ratios and the uniform consumption
    of: "from the hottest pair down, propose to exchange the OCCUPANTS of adjacent slots" — for every
    ladder, every log-likelihood assignment (ties included), every stream of uniforms, every
    numeric instance. *)
Theorem C03_refines :
  forall (T : Type) (N : Num T) (betas logls us : list T),
  (0 < length logls)%nat ->
  sweep betas logls us
  = sweep_spec betas logls (length logls - 1) (seq 0 (length logls)) us (repeat nzero (length logls - 1)).
Proof. intros. now apply sweep_is_spec. Qed.
Print Assumptions C03_refines.

Theorem C03_refines_invariant :
  forall (T : Type) (N : Num T) (betas logls : list T) tk idx loglk us ars,
  (tk < length idx)%nat -> (forall t, (t < tk)%nat -> nth t idx 0%nat = t) ->
  loglk = nth (nth tk idx 0%nat) logls nzero ->
  sweep_code betas logls tk idx loglk us ars = sweep_spec betas logls tk idx us ars.
Proof. intros. now apply sweep_refines. Qed.
Print Assumptions C03_refines_invariant.

(** One pair: with a uniform u in [0,1) the exchange is made iff u <= min(1, e^logar), the recorded
    ratio is that minimum ... *)
Theorem C03_pair_region :
  forall logar u : R, 0 <= u < 1 ->
  let '(sw, ar, used) := swap_decide logar u in
  ar = Rmin 1 (exp logar) /\ (sw = true <-> u <= Rmin 1 (exp logar)) /\ (used = false -> logar > 0).
Proof. exact swap_region. Qed.
Print Assumptions C03_pair_region.

(** ... and e^logar = (L_a / L_b)^(beta_k - beta_j) for the occupants a (colder slot j) and b
    (hotter slot k), with the betas of the slots ... *)
Theorem C03_pair_prob :
  forall bj bk La Lb : R, 0 < La -> 0 < Lb ->
  exp (pair_logar [bj; bk] 0 (ln La) (ln Lb)) = Rpower (La / Lb) (bk - bj).
Proof. exact pair_prob. Qed.
Print Assumptions C03_pair_prob.

(** ... which is the ratio of the joint tempered target prod_t p(c_t) L(c_t)^beta_t after / before
    the exchange (only the two exchanged factors differ; the priors cancel). *)
Theorem C03_pair_balance :
  forall bj bk pa pb La Lb : R, 0 < pa -> 0 < pb -> 0 < La -> 0 < Lb ->
  ((pb * Rpower Lb bj) * (pa * Rpower La bk)) / ((pa * Rpower La bj) * (pb * Rpower Lb bk))
  = Rpower (La / Lb) (bk - bj).
Proof. exact pair_balance. Qed.
Print Assumptions C03_pair_balance.

(** Invariance on any finite configuration space: an exchange kernel whose acceptance satisfies
    the balance above leaves the target invariant, and so does the composition of the pair
    kernels in sweep order. *)
Theorem C03_exchange_invariant :
  forall (X : Type) (eq_dec : forall x y : X, {x = y} + {x <> y}) (xs : list X), NoDup xs ->
  forall (Pi : X -> R) (s : X -> X) (a : X -> R),
  (forall x, In x xs -> In (s x) xs) -> (forall x, In x xs -> s (s x) = x) ->
  (forall x, In x xs -> Pi x * a x = Pi (s x) * a (s x)) ->
  Invariant X xs Pi (exchange_kernel X eq_dec s a).
Proof. exact exchange_invariant. Qed.
Print Assumptions C03_exchange_invariant.

Theorem C03_sweep_invariant :
  forall (X : Type) (eq_dec : forall x y : X, {x = y} + {x <> y}) (xs : list X), NoDup xs ->
  forall (Pi : X -> R) (Ks : list (X -> X -> R)),
  Forall (Invariant X xs Pi) Ks -> Invariant X xs Pi (compose_all X eq_dec xs Ks).
Proof. exact sweep_invariant. Qed.
Print Assumptions C03_sweep_invariant.
