(** C08 — recorded history is faithful. Statements only. *)
From Coq Require Import ZArith Lia.
From Epsie Require Import Base Machine Machine_proofs Sweep_proofs PT_proofs MachineExamples.

(** The history invariant [Hist] — for every level and every [0 <= i < len]: positions[i],
    stats[i], acceptance[i], blobs[i] are record [lastclear + i] of everything ever recorded,
    [len = iteration - lastclear], and the start triple after a clear is the last record —
    holds on all levels after the start positions are set and is preserved by every
    schedule of runs (with their scratch growth and temperature swaps) and clears. *)
Theorem C08_history_invariant :
  forall (V : Type) (isneginf isnan : V -> bool) (vzero : V) (comps : list (list nat))
         (ops : list (op V)) (p p' : ptchain V),
    PTInv V vzero p -> Forall (run_or_clear V) ops ->
    execs V isneginf isnan vzero comps p ops = Good p' -> PTInv V vzero p'.
Proof.
  intros V isneginf isnan vzero comps ops p p' HI HF He.
  destruct (schedule_independent V isneginf isnan vzero comps ops p p p' HI HI (PTgeq_refl V p) HF He) as (q & _ & _ & H & _).
  exact H.
Qed.
Print Assumptions C08_history_invariant.

(** One step: the new record is the proposal with the model's outputs when accepted,
    and a repetition of the previous record when rejected (this is the record *before* any
    swap of that iteration); a proposal with logp = -inf is never accepted. *)
Theorem C08_step_records :
  forall (V : Type) (isneginf : V -> bool) (vzero : V) (c c' : chain V) (i : sin V),
    step V isneginf vzero c i = Good c' ->
    hist V c' = hist V c ++ [step_row V isneginf vzero c i]
    /\ iter V c' = S (iter V c) /\ lastclear V c' = lastclear V c.
Proof.
  intros V isneginf vzero c c' i H.
  destruct (step_fields V isneginf vzero c c' i H) as (A & B & _ & C & _). auto.
Qed.
Print Assumptions C08_step_records.

Theorem C08_step_row_cases :
  forall (V : Type) (isneginf : V -> bool) (vzero : V) (c : chain V) (i : sin V) cp cs logl logp bl,
    cur_pos V c = Some cp -> cur_stats V c = Some cs -> s_out V i = (logl, logp, bl) ->
    let r := step_row V isneginf vzero c i in
    (isneginf logp = true -> h_pos V r = cp /\ h_stats V r = cs /\ h_acc V r = (vzero, false))
    /\ (isneginf logp = false -> forall ar, s_dec V i = Some (true, ar) ->
          h_pos V r = s_prop V i /\ h_stats V r = (logl, logp) /\ h_blob V r = oblob V bl /\ h_acc V r = (ar, true))
    /\ (isneginf logp = false -> forall ar, s_dec V i = Some (false, ar) ->
          h_pos V r = cp /\ h_stats V r = cs /\ h_blob V r = oblob V (cur_blob V c) /\ h_acc V r = (ar, false)).
Proof.
  intros V isneginf vzero c i cp cs logl logp bl Ep Es Eo. cbn zeta. unfold step_row. rewrite Ep, Es, Eo.
  repeat split; intros; repeat match goal with H : _ = _ |- _ => rewrite H end; reflexivity.
Qed.
Print Assumptions C08_step_row_cases.

(** Every recorded (position, logl, logp) of a chain is the result of a model evaluation
    (at the start or at a step's proposal). [_partial]: proved for one level stepping on its
    own (blobs and the transport of records by temperature swaps are covered by
    [C09_permutes] and by the correspondence, not by this statement). *)
Theorem C08_genuine_partial :
  forall (V : Type) (isneginf : V -> bool) (vzero : V) E (c c' : chain V) (i : sin V),
    Hist V vzero c -> GenuineChain V E c -> step V isneginf vzero c i = Good c' ->
    forall r, In r (hist V c') -> In (row2 V r) (E ++ [ev2 V (s_prop V i, s_out V i)]).
Proof. exact step_genuine. Qed.
Print Assumptions C08_genuine_partial.

(** Per-index access: for every valid index, negative ones included, [chain[i]] is record
    [i mod len] of the retained history. *)
Theorem C08_getitem :
  forall (V : Type) (vzero : V) (c : chain V) (i : Z),
    Hist V vzero c -> (- Z.of_nat (clen V c) <= i < Z.of_nat (clen V c))%Z ->
    exists r, nth_error (hist V c) (lastclear V c + Z.to_nat (i mod Z.of_nat (clen V c))) = Some r
              /\ getitem V c i = Good (Some (h_pos V r), Some (h_stats V r), Some (h_acc V r),
                                        if hasblobs V c then Some (h_blob V r) else None).
Proof. exact getitem_spec. Qed.
Print Assumptions C08_getitem.

(** Non-vacuity: the example state satisfies the invariant's consequences: chain[-1] is the last record
    (here the state that the second sweep moved down from the hottest level). *)
Example C08_example :
  exists p c, ex_final = Good p /\ nth_error (levels nat p) 0 = Some c
              /\ getitem nat c (-1) = Good (Some [36], Some (306, 1), Some (5, false), None).
Proof. unfold ex_final. eexists. eexists. split; [vm_compute; reflexivity|]. split; reflexivity. Qed.

(** Full strength (supersedes the [_partial] statement above): on every level of a
    parallel-tempered chain started from scratch, after ANY schedule of runs and clears — hence
    across every temperature sweep, which carries records between levels — every record ever made,
    and so every retained array entry (by [Hist]), is (position, (logl, logp), blob) of one model
    evaluation made by some level of that chain.  Premise: the model returns a blob always or
    never ([start_blobs] / [op_disciplined]); the code raises otherwise when it unpacks the
    model's return value. *)
From Epsie Require Import Genuine_proofs.
Theorem C08_all_records_genuine :
  forall (V : Type) (isneginf isnan : V -> bool) (vzero : V) (comps : list (list nat))
         (b : bool) (n swi : nat) (ss : list (pos V * mout V)) (ops : list (op V)) (p0 p' : ptchain V),
    0 < n -> Forall (start_blobs V b) ss -> exec V isneginf isnan vzero comps (new_pt V n swi) (OStart V ss) = Good p0 ->
    Forall (run_or_clear V) ops -> Forall (op_disciplined V b) ops ->
    execs V isneginf isnan vzero comps p0 ops = Good p' ->
    forall c, In c (levels V p') ->
      (forall r, In r (hist V c) -> exists lv x, In lv (levels V p') /\ In x (calls V lv) /\ row3 V r = ev3 V x)
      /\ Hist V vzero c.
Proof. exact all_records_genuine. Qed.
Print Assumptions C08_all_records_genuine.

(** Non-vacuity: the example schedule (start, run 4 with a sweep, clear, run 2 with a sweep; no
    blobs) meets every premise of the theorem. *)
Example C08_all_records_genuine_example :
  exists p0, xexec (new_pt nat 3 3) (hd (OClear nat) ex_ops) = Good p0
  /\ Forall (start_blobs nat false) [([10], (100, 1, None)); ([20], (200, 1, None)); ([30], (300, 1, None))]
  /\ Forall (run_or_clear nat) (tl ex_ops) /\ Forall (op_disciplined nat false) (tl ex_ops)
  /\ exists p', xexecs p0 (tl ex_ops) = Good p'.
Proof.
  eexists. split; [vm_compute; reflexivity|]. split; [repeat constructor|].
  split; [repeat constructor|]. split.
  - repeat (constructor; cbn); intros; reflexivity.
  - eexists. vm_compute. reflexivity.
Qed.
