(** C16, source tie.  [Chain.state] stores, and [Chain.set_state] hands to the proposals, a deep copy of the
    proposals' state - read off /repo's chain.py on every run ([Gen/SrcState.v]).  These are the flags under
    which the snapshot theorems of [Props/C16.v] hold and without which [C16_refuted_without_copy_frozen] /
    [C16_refuted_without_copy_coupling] are counterexamples.  Statements only. *)
From Coq Require Import List Bool.
From Epsie Require Import Base Alias Alias_proofs Gen.SrcState.

Theorem C16_src_snapshot_frozen :
  forall (ops : list op) (w : world) (k : nat),
  Tagged w -> k < length (states w) ->
  let cp := src_chain_state_deepcopies && src_chain_set_state_deepcopies in
  state_contents (execs cp src_reset_deepcopies w ops) k = state_contents w k /\ Tagged (execs cp src_reset_deepcopies w ops).
Proof. exact snapshot_frozen. Qed.
Print Assumptions C16_src_snapshot_frozen.

Theorem C16_src_no_coupling :
  forall (ops : list op) (w : world) (s : nat),
  Tagged w -> s < length (regs w) -> Forall (fun o => target o <> s) ops ->
  let cp := src_chain_state_deepcopies && src_chain_set_state_deepcopies in
  sampler_contents (execs cp src_reset_deepcopies w ops) s = sampler_contents w s.
Proof. exact no_coupling. Qed.
Print Assumptions C16_src_no_coupling.

Example C16_src_flags : src_chain_state_deepcopies = true /\ src_chain_set_state_deepcopies = true.
Proof. split; reflexivity. Qed.
