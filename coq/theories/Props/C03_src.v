(** C03, source tie: the per-pair exchange kernel inside the loop of [swap_temperatures] as it is
    written in /repo's ptchain.py today ([Gen/SrcNum.v], regenerated on every run; the translator
    also checks that the loop is `for tk in range(self.ntemps-1, 0, -1)` with `tj = tk - 1`)
    IS the model's over the reals: logar = (beta_k - beta_j)(loglj - loglk), no uniform above 0,
    swap iff u <= exp(logar).  Statements only; proofs in [SrcTie_swap]. *)
From Coq Require Import Reals List.
From Epsie Require Import Base Num NumR SweepNum SrcSupport Gen.SrcNum SrcTie_swap.
Local Open Scope R_scope.

Theorem C03_src_pair_logar :
  forall (betas : list R) (tj : nat) (loglj loglk : R),
  src_swap_logar (nth (S tj) betas 0 - nth tj betas 0) loglj loglk = pair_logar betas tj loglj loglk.
Proof. exact src_swap_logar_tie. Qed.
Print Assumptions C03_src_pair_logar.

Theorem C03_src_pair_decide :
  forall logar u : R, src_swap_decide logar u = let '(s, ar, d) := swap_decide logar u in SRet s ar d.
Proof. exact src_swap_decide_tie. Qed.
Print Assumptions C03_src_pair_decide.
