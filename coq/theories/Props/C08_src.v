(** C08, source tie: [len(chain)] and the scratch growth of [BaseSampler.run] as written in
    /repo today are the model's [clen] and [pt_grow] arithmetic.
    Statements only; proofs in [SrcTie_pt]. *)
From Coq Require Import ZArith Bool.
From Epsie Require Import Base Machine Gen.Src SrcTie_pt.

Theorem C08_src_len :
  forall (V : Type) (c : chain V), (lastclear V c <= iter V c)%nat ->
  src_len (Z.of_nat (iter V c)) (Z.of_nat (lastclear V c)) = Z.of_nat (clen V c).
Proof. intros V c. apply src_len_tie. Qed.
Print Assumptions C08_src_len.

Theorem C08_src_run_scratchlen :
  forall n len sl : nat,
  src_run_scratchlen (Z.of_nat n) (Z.of_nat len) (Z.of_nat sl) = Z.of_nat (sl + (n + len - sl)).
Proof. exact src_run_scratchlen_tie. Qed.
Print Assumptions C08_src_run_scratchlen.
