(** C08, source tie: [len(chain)] and the scratch growth of [BaseSampler.run] as written in
    /repo today are the model's [clen] and [pt_grow] arithmetic.
    Statements only; proofs in [SrcTie_chain]. *)
From Coq Require Import ZArith Bool.
From Epsie Require Import Base Machine Gen.Src SrcTie_chain.

Theorem C08_src_len :
  forall (V : Type) (c : chain V), (lastclear V c <= iter V c)%nat ->
  src_len (Z.of_nat (iter V c)) (Z.of_nat (lastclear V c)) = Z.of_nat (clen V c).
Proof. intros V c. apply src_len_tie. Qed.
Print Assumptions C08_src_len.

Theorem C08_src_run_scratchlen :
  forall n len sl : nat,
  src_run_scratchlen (Z.of_nat n) (Z.of_nat len) (Z.of_nat sl) = Z.of_nat (sl + (n + len - sl)).
Proof. exact src_run_scratchlen_tie. Qed.
Print Assumptions C08_src_run_scratchlen.

(** scratch rows grow as the source says: [ChainData.__setitem__] extends by [index + 1 - len] when
    the index lies beyond the data, [set_len] by [n - len] exactly when [len < n] (its ValueError
    otherwise is swallowed by the callers and the rows stay) *)
Theorem C08_src_scratch_setitem :
  forall (T : Type) (l : scratch T) (i : nat) (v : T), (length l <= i)%nat ->
  Z.of_nat (length (sc_set l i v)) = (Z.of_nat (length l) + src_setitem_extend (Z.of_nat i) (Z.of_nat (length l)))%Z.
Proof. intros T l i v. apply src_setitem_extend_tie. Qed.
Print Assumptions C08_src_scratch_setitem.

Theorem C08_src_scratch_set_len :
  forall (T : Type) (l : scratch T) (n : nat),
  src_set_len_grows (Z.of_nat n) (Z.of_nat (length l)) = (length l <? n)%nat
  /\ ((length l < n)%nat ->
      Z.of_nat (length (sc_setlen l n)) = (Z.of_nat (length l) + src_set_len_amount (Z.of_nat n) (Z.of_nat (length l)))%Z)
  /\ ((n <= length l)%nat -> sc_setlen l n = l).
Proof. intros T l n. apply src_set_len_tie. Qed.
Print Assumptions C08_src_scratch_set_len.
