(** C20 — checkpoint files round-trip any state, also when overwriting.
    Only statements here; proofs are in [H5_proofs]. *)
From Epsie Require Import Base H5 H5_proofs.

(** Round trip: whatever the dataset held before (absent, shorter, longer, equal),
    dumping [b] and loading it back returns exactly [b] — for every byte list,
    zero bytes included ([B] and its fill value are arbitrary). *)
Theorem C20_roundtrip :
  forall (B : Type) (zero : B) (f : file B) (g n : nat) (b : list B) (grp : group B),
    Inv B f -> aget f g = Some grp ->
    exists f', dump B zero f g n b = Ok f' /\ load B f' g n = Ok b /\ Inv B f'.
Proof. exact roundtrip. Qed.
Print Assumptions C20_roundtrip.

(** Frame: a dump never disturbs another (path, dataset name). *)
Theorem C20_frame :
  forall (B : Type) (zero : B) (f : file B) (g n : nat) (b : list B) (f' : file B) (g' n' : nat),
    dump B zero f g n b = Ok f' -> (g', n') <> (g, n) -> load B f' g' n' = load B f g' n'.
Proof. exact frame. Qed.
Print Assumptions C20_frame.

(** Refinement: every sequence of dumps and loads on a fresh file behaves like a
    finite map (path, name) -> bytes holding the latest dump. *)
Theorem C20_refines :
  forall (B : Type) (zero : B) (gs : list nat) (ops : list (op B)),
    snd (run B zero (mkfile B gs) ops)
    = arun B (fun g => existsb (Nat.eqb g) gs) (fun _ _ => None) ops.
Proof. exact refines_from_empty. Qed.
Print Assumptions C20_refines.

(** The invariant the round trip relies on holds in every reachable state. *)
Theorem C20_reachable_inv :
  forall (B : Type) (zero : B) (gs : list nat) (ops : list (op B)),
    Inv B (fst (run B zero (mkfile B gs) ops)).
Proof. intros. apply run_inv, Inv_mkfile. Qed.
Print Assumptions C20_reachable_inv.

(** Non-vacuity: a concrete overwrite of a longer checkpoint by a shorter one with a NUL. *)
Example C20_example :
  snd (run nat 0 (mkfile nat [0; 1])
         [Dump 0 7 [1; 2; 3; 4]; Dump 0 7 [9; 0]; Load 0 7; Dump 1 7 [5]; Load 0 7; Load 1 7; Load 2 7])
  = [ODone; ODone; OBytes [9; 0]; ODone; OBytes [9; 0]; OBytes [5]; OErr KeyError].
Proof. reflexivity. Qed.
