(** C18 — the model is evaluated once per step per level and never otherwise. Statements only. *)
From Coq Require Import ZArith Lia.
From Epsie Require Import Base Machine Machine_proofs Sweep_proofs PT_proofs MachineExamples.

(** Count: after any schedule of runs and clears every level's call log has grown by exactly
    the number of iterations made — one evaluation per level per iteration, whatever the
    partition, the clears and the temperature swaps. *)
Theorem C18_count :
  forall (V : Type) (isneginf isnan : V -> bool) (vzero : V) (comps : list (list nat))
         (ops : list (op V)) (p p' : ptchain V),
    PTInv V vzero p -> Forall (run_or_clear V) ops ->
    execs V isneginf isnan vzero comps p ops = Good p' ->
    Forall2 (fun c c' => length (calls V c') = length (calls V c) + length (all_steps V ops))
            (levels V p) (levels V p').
Proof. exact calls_count. Qed.
Print Assumptions C18_count.

(** Arguments and values: the evaluation made by a step is at that step's proposed point,
    and the pair logged is exactly what the step may record. *)
Theorem C18_step_call :
  forall (V : Type) (isneginf : V -> bool) (vzero : V) (c c' : chain V) (i : sin V),
    step V isneginf vzero c i = Good c' -> calls V c' = calls V c ++ [(s_prop V i, s_out V i)].
Proof.
  intros V isneginf vzero c c' i H.
  destruct (step_fields V isneginf vzero c c' i H) as (_ & _ & _ & _ & C & _). exact C.
Qed.
Print Assumptions C18_step_call.

Theorem C18_start_call :
  forall (V : Type) (isneginf isnan : V -> bool) (comps : list (list nat)) (c c' : chain V) p o,
    set_start V isneginf isnan comps c p o = Good c' -> calls V c' = calls V c ++ [(p, o)].
Proof. intros. eapply set_start_calls; eauto. Qed.
Print Assumptions C18_start_call.

(** Silent operations: temperature swaps, clear, scratch growth and loading a state leave the
    call log unchanged (reading state / results are functions of the state in the model:
    [get_state], [getitem], [temperature_swaps] return no new state at all). *)
Theorem C18_sweep_silent :
  forall (V : Type) (vzero : V) (p : ptchain V) sw,
    PTInv V vzero p -> 0 < pt_iter V p - lastclear V (lvl0 V p) ->
    Forall2 (fun c c' => calls V c' = calls V c) (levels V p) (levels V (swap_temperatures V vzero p sw)).
Proof. exact swap_calls. Qed.
Print Assumptions C18_sweep_silent.

Theorem C18_clear_silent : forall (V : Type) (c : chain V), calls V (clear V c) = calls V c.
Proof. exact clear_calls. Qed.
Print Assumptions C18_clear_silent.

Theorem C18_set_state_silent :
  forall (V : Type) (isnan : V -> bool) (vzero : V) (comps : list (list nat)) (c : chain V) s,
    calls V (set_state V isnan vzero comps c s) = calls V c.
Proof. exact set_state_calls. Qed.
Print Assumptions C18_set_state_silent.

Theorem C18_growth_silent : forall (V : Type) (c : chain V) n, calls V (set_scratchlen V c n) = calls V c.
Proof. exact set_scratchlen_calls. Qed.
Print Assumptions C18_growth_silent.

(** Non-vacuity: the example (6 iterations, a clear, two sweeps): 1 start + 6 step evaluations per level. *)
Example C18_example :
  exists p, ex_final = Good p /\ map (fun c => length (calls nat c)) (levels nat p) = [7; 7; 7].
Proof. unfold ex_final. eexists. split; [vm_compute; reflexivity|]. reflexivity. Qed.
