(** C04, source tie: a census of every file of epsie/ as it is today ([Gen/SrcRng.v], regenerated on
    every run by tools/py2coq.py): the only names taken from numpy.random are the bit generator, the
    seed sequence and the Generator class (what the wiring model's streams are made of); nothing
    refers to a process-wide source of randomness - no attribute chain through numpy.random or the
    stdlib random module, no `.rvs()` (which draws from the global RandomState unless handed one),
    no `default_rng()`, `RandomState()` or `seed()` call.  What differs between two processes
    cannot then reach a draw except through the seed. *)
From Coq Require Import String List.
From Epsie Require Import Gen.SrcRng.
Import ListNotations.
Local Open Scope string_scope.

Theorem C04_src_rng_imports :
  src_rng_imports = ["epsie/__init__.py:numpy.random.PCG64"; "epsie/__init__.py:numpy.random.SeedSequence";
                     "epsie/proposals/base.py:numpy.random.Generator"].
Proof. reflexivity. Qed.
Print Assumptions C04_src_rng_imports.

Theorem C04_src_no_global_randomness : src_global_rng_uses = [].
Proof. reflexivity. Qed.
Print Assumptions C04_src_no_global_randomness.
