(** C01, source tie: the Metropolis-Hastings kernel as it is written in /repo's chain.py today
    ([Gen/SrcNum.v], regenerated on every run) IS the model's kernel over the reals, for all
    inputs: the log-ratio (with the Hastings term exactly when the proposal is not symmetric, and
    in the right direction), the decision (no uniform above 0, accept iff u <= exp(logar), the
    NaN error), and the forced reject of a proposal with logp = -inf.
    Statements only; proofs in [SrcTie_mh]. *)
From Coq Require Import Reals.
From Epsie Require Import Base Num NumR MH SrcSupport Gen.SrcNum SrcTie_mh.
Local Open Scope R_scope.

Theorem C01_src_logar :
  forall (beta qrev qfwd logp logl clogp clogl : R) (symmetric : bool),
  src_mh_logar beta symmetric qrev qfwd logp logl clogp clogl
  = mh_logar logp logl clogp clogl beta (if symmetric then None else Some (qrev, qfwd)).
Proof. exact src_mh_logar_tie. Qed.
Print Assumptions C01_src_logar.

Theorem C01_src_decide :
  forall logar u : R, src_mh_decide logar u = of_mh (mh_decide logar u).
Proof. exact src_mh_decide_tie. Qed.
Print Assumptions C01_src_decide.

Theorem C01_src_forced_reject :
  forall (logp logl clogp clogl beta u : R) (h : option (R * R)),
  src_step_decide logp (of_mh (mh_decide (mh_logar logp logl clogp clogl beta h) u))
  = of_mh (mh_step logp logl clogp clogl beta h u).
Proof. exact src_step_decide_tie. Qed.
Print Assumptions C01_src_forced_reject.
