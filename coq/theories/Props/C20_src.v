(** C20, source tie: [dump_pickle_to_hdf] as it is written in /repo today is rendered as a plan of
    h5py actions ([Gen/SrcH5.v], regenerated on every run by tools/py2coq_h5.py: which of create /
    resize / whole-slice assignment happen, in which order, depending on whether the dataset exists
    and whether its length equals that of the new byte string; the translator also checks the
    prologue - rewind, read all bytes as 'S1', group lookup - and that [load_state] reads the whole
    dataset).  Executing that plan with the model's h5py primitives IS the model's [dump], for every
    file, group, dataset name and byte string.  Statement only; proof in [SrcTie_h5]. *)
From Coq Require Import List Bool.
From Epsie Require Import Base H5 SrcSupport Gen.SrcH5 SrcTie_h5.

Theorem C20_src_dump_plan :
  forall (B : Type) (zero : B) (f : file B) (g n : nat) (b : list B),
  dump B zero f g n b
  = match aget f g with
    | None => Err KeyError
    | Some grp =>
        match run_plan B zero b (aget grp n) (src_dump_plan (is_some (aget grp n)) (same_size B b (aget grp n))) with
        | Ok (Some d') => Ok (aset f g (aset grp n d'))
        | Ok None => Err KeyError
        | Err e => Err e
        end
    end.
Proof. exact src_dump_plan_tie. Qed.
Print Assumptions C20_src_dump_plan.

Theorem C20_src_load_reads_whole_dataset : src_load_reads_whole_dataset = true.
Proof. reflexivity. Qed.
Print Assumptions C20_src_load_reads_whole_dataset.
