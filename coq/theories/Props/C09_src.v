(** C09, source tie: the condition under which [ParallelTemperedChain.step] sweeps, as written in
    /repo today, is the model's ([pt_step]: more than one level and the iteration a multiple of
    the swap interval), and the guarded block is exactly the call of [swap_temperatures].
    Statement only; proof in [SrcTie_pt]. *)
From Coq Require Import ZArith Bool.
From Epsie Require Import Base Machine Gen.Src SrcTie_pt.

Theorem C09_src_swap_due :
  forall iteration ntemps swap_interval : nat, (1 <= swap_interval)%nat ->
  src_swap_due (Z.of_nat iteration) (Z.of_nat ntemps) (Z.of_nat swap_interval)
  = ((1 <? ntemps)%nat && (iteration mod swap_interval =? 0)%nat).
Proof. exact src_swap_due_tie. Qed.
Print Assumptions C09_src_swap_due.
