(** C09, source tie: the condition under which [ParallelTemperedChain.step] sweeps, as written in
    /repo today, is the model's ([pt_step]: more than one level and the iteration a multiple of
    the swap interval), and the guarded block is exactly the call of [swap_temperatures].
    Statement only; proof in [SrcTie_pt]. *)
From Coq Require Import ZArith Bool.
From Epsie Require Import Base Machine Gen.Src SrcTie_pt.

Theorem C09_src_swap_due :
  forall iteration ntemps swap_interval : nat, (1 <= swap_interval)%nat ->
  src_swap_due (Z.of_nat iteration) (Z.of_nat ntemps) (Z.of_nat swap_interval)
  = ((1 <? ntemps)%nat && (iteration mod swap_interval =? 0)%nat).
Proof. exact src_swap_due_tie. Qed.
Print Assumptions C09_src_swap_due.

(** the row a sweep is stored in is (iteration - lastclear - 1) // swap_interval, the same for the
    index array and the acceptance ratios ([swap_temperatures] of the model: [sc_set (tS p) (ii / si p)]),
    and the views show len // swap_interval rows ([temperature_swaps] of the model) *)
Theorem C09_src_sweep_row :
  forall iteration lastclear swap_interval : nat, (lastclear < iteration)%nat ->
  src_swap_row (src_swap_ii (Z.of_nat iteration) (Z.of_nat lastclear)) (Z.of_nat swap_interval)
  = Z.of_nat ((iteration - lastclear - 1) / swap_interval).
Proof. intros i l s H. rewrite src_swap_ii_tie by exact H. apply src_swap_row_tie. Qed.
Print Assumptions C09_src_sweep_row.

Theorem C09_src_view_rows :
  forall len swap_interval : nat,
  src_swaps_view_rows (Z.of_nat len) (Z.of_nat swap_interval) = Z.of_nat (len / swap_interval)
  /\ src_acceptance_view_rows (Z.of_nat len) (Z.of_nat swap_interval) = Z.of_nat (len / swap_interval).
Proof. exact src_view_rows_tie. Qed.
Print Assumptions C09_src_view_rows.
