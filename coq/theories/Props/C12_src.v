(** C12, source tie: the rejection loops of the bounded normal and bounded discrete proposals AS WRITTEN IN
    /repo TODAY ([Gen/SrcJump.v], regenerated on every run by tools/py2coq_jump.py: the membership test,
    one pass of each redraw loop, the refusal at the top of each [_jump]) return only points within the
    bounds, refuse from outside, and - without successive jumps - never return the current integer: for every
    list of draws, every scale, every rounding function and numeric instance.  Statements only; proofs in
    [SrcTie_jump] and [Dens_range_proofs]. *)
From Coq Require Import Reals ZArith List Bool.
From Epsie Require Import Num NumR Dens Dens_range_proofs Gen.SrcJump SrcTie_jump.
Import ListNotations.

Theorem C12_src_bounded_discrete_is_the_model :
  forall {T} (rnd fc : T -> Z) succ (lo hi x : Z) (draws : list T),
  src_bd_jump_from rnd fc succ lo hi x draws = bd_jump_from rnd fc succ lo hi x draws.
Proof. intros. apply src_bd_jump_from_tie. Qed.
Print Assumptions C12_src_bounded_discrete_is_the_model.

Theorem C12_src_bounded_discrete :
  forall {T} (rnd fc : T -> Z) succ (lo hi x : Z) (draws : list T) y n,
  src_bd_jump_from rnd fc succ lo hi x draws = Jumped y n -> (lo <= y <= hi)%Z.
Proof. intros T rnd fc succ lo hi x draws y n. rewrite src_bd_jump_from_tie. apply bd_from_in_bounds. Qed.
Print Assumptions C12_src_bounded_discrete.

Theorem C12_src_bounded_discrete_refuses :
  forall {T} (rnd fc : T -> Z) succ (lo hi x : Z) (draws : list T),
  (x < lo \/ hi < x)%Z -> src_bd_jump_from rnd fc succ lo hi x draws = Refused.
Proof. intros T rnd fc succ lo hi x draws. rewrite src_bd_jump_from_tie. apply bd_refuses_outside. Qed.
Print Assumptions C12_src_bounded_discrete_refuses.

Theorem C12_src_bounded_discrete_moves :
  forall {T} (rnd fc : T -> Z) (lo hi x : Z) (draws : list T) y n,
  first_accepted (src_bd_accept rnd fc false lo hi x) draws = Some (y, n) -> y <> x.
Proof.
  intros T rnd fc lo hi x draws y n. rewrite src_bd_jump_tie. intros H.
  destruct (bd_jump_in_bounds rnd fc false lo hi x draws y n H) as (_ & B & _). now apply B.
Qed.
Print Assumptions C12_src_bounded_discrete_moves.

Theorem C12_src_bounded_normal :
  forall (lo hi x : R) draws y n, @src_bn_jump_from R _ lo hi x draws = Jumped y n -> (lo <= y <= hi)%R.
Proof. intros lo hi x draws y n. rewrite src_bn_jump_from_tie. apply bn_from_in_bounds. Qed.
Print Assumptions C12_src_bounded_normal.

Theorem C12_src_bounded_normal_refuses :
  forall (lo hi x : R) draws, (x < lo \/ hi < x)%R -> @src_bn_jump_from R _ lo hi x draws = Refused.
Proof. intros lo hi x draws. rewrite src_bn_jump_from_tie. apply bn_refuses_outside. Qed.
Print Assumptions C12_src_bounded_normal_refuses.

(** not vacuous: draws 7.4 (out), 0.2 (rounds to the current integer: kept with successive jumps), from 3 in 0..5 *)
Example C12_src_example :
  src_bd_jump_from (fun z : Z => z) (fun z : Z => z) true 0 5 3 [7; 0]%Z = Jumped 3%Z 2
  /\ src_bd_jump_from (fun z : Z => z) (fun z : Z => z) false 0 5 3 [7; 0; -2]%Z = Jumped 1%Z 3
  /\ src_bd_jump_from (fun z : Z => z) (fun z : Z => z) false 0 5 6 [1]%Z = Refused.
Proof. vm_compute. repeat split. Qed.
