(** C02, source tie: the public [jump] and [logpdf] of every proposal ([BaseProposal], as written in
    /repo's base.py today; [Gen/Src.v] is regenerated on every run) hand over to the family's
    [_jump] / [_logpdf] under the SAME condition, in every state of the jump-interval clock.  So the
    density that enters the Hastings factor is reported exactly when a move is drawn - the family
    theorems of [Props/C02.v] then say that it is the law of that move - and is the constant 0 (on
    both sides of the factor) exactly when the point is copied.  Statements only. *)
From Coq Require Import ZArith Bool.
From Epsie Require Import Base Clock Gen.Src SrcTie_clock SrcTie_density.
Local Open Scope Z_scope.

Theorem C02_src_density_reported_iff_move_drawn :
  forall (jump_interval duration nsteps : Z) (start_step : option Z),
  src_logpdf_delegates jump_interval duration nsteps start_step = src_jump_delegates jump_interval duration nsteps start_step.
Proof. exact src_logpdf_follows_jump. Qed.
Print Assumptions C02_src_density_reported_iff_move_drawn.

Theorem C02_src_jump_is_the_clock :
  forall p : pclock, (1 <= pk p)%nat ->
  src_jump_delegates (Z.of_nat (pk p)) (pD p) (Z.of_nat (pn p)) (pstart p) = call_jump p.
Proof. exact src_jump_delegates_tie. Qed.
Print Assumptions C02_src_jump_is_the_clock.

Theorem C02_src_logpdf_is_the_clock :
  forall p : pclock, (1 <= pk p)%nat ->
  src_logpdf_delegates (Z.of_nat (pk p)) (pD p) (Z.of_nat (pn p)) (pstart p) = call_jump p.
Proof. exact src_logpdf_delegates_tie. Qed.
Print Assumptions C02_src_logpdf_is_the_clock.

(** not vacuous: a slow proposal past its duration, off its cycle, draws a move and reports its density *)
Example C02_src_past_duration_off_cycle :
  src_jump_delegates 3 6 20 None = true /\ src_logpdf_delegates 3 6 20 None = true /\
  src_jump_delegates 3 6 4 None = false /\ src_logpdf_delegates 3 6 4 None = false.
Proof. vm_compute. repeat split. Qed.

(** the jump whose law the cell theorems of [Props/C02.v] describe is the jump of the source: one pass of
    [BoundedDiscrete._jump]'s redraw loop and the acceptance test of [BoundedNormal._jump] as written in /repo
    today ([Gen/SrcJump.v], tools/py2coq_jump.py), iterated to the first accepted draw, are [bd_jump1] / [bn_jump1] *)
From Coq Require Import List.
From Epsie Require Import Num Dens Gen.SrcJump SrcTie_jump.
Theorem C02_src_bounded_discrete_jump_is_the_model :
  forall {T} (rnd fc : T -> Z) succ (lo hi x : Z) (draws : list T),
  first_accepted (src_bd_accept rnd fc succ lo hi x) draws = bd_jump1 rnd fc succ lo hi x draws.
Proof. intros. apply src_bd_jump_tie. Qed.
Print Assumptions C02_src_bounded_discrete_jump_is_the_model.

Theorem C02_src_bounded_normal_jump_is_the_model :
  forall {T} `{Num T} (lo hi : T) (draws : list T),
  first_accepted (fun y => if src_bn_accept lo hi y then Some y else None) draws = bn_jump1 lo hi draws.
Proof. intros. apply src_bn_jump_tie. Qed.
Print Assumptions C02_src_bounded_normal_jump_is_the_model.
