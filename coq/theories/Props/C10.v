(** C10 — transdimensional states are well formed, and stay so.
    Statements only; proofs in [TD_proofs]. *)
From Coq Require Import ZArith List Bool.
From Epsie Require Import Base TD TD_proofs.
Import ListNotations.
Local Open Scope Z_scope.

Section C10.
  Variable V : Type.
  Variable isnan : V -> bool.
  Variable nan : V.
  Hypothesis nan_isnan : isnan nan = true.
  Notation WF := (WF V isnan).

  (** The proposed point of every transdimensional jump from a well-formed state is well formed:
      for every new index within the index proposal's bounds, every choice of |dk| distinct
      components among the inactive (dk > 0) or the active (dk < 0) ones, every finite birth and
      every finite in-model proposal. *)
  Theorem C10_jump_wf :
    forall lo hi (x : tdpos V) (a : list bool) (i : tdin V),
    WF lo hi x a -> lo <= new_k V i <= hi ->
    let dk := new_k V i - kidx V x in
    (dk <> 0 -> NoDup (mask V i) /\ Z.of_nat (length (mask V i)) = Z.abs dk
                /\ forall m, In m (mask V i) -> (m < length a)%nat /\ nth m a false = (dk <? 0)) ->
    good_draw V isnan (length a) (births V i) -> good_draw V isnan (length a) (jumps V i) ->
    WF lo hi (fst (td_jump V nan x a i)) (snd (td_jump V nan x a i)).
  Proof. exact (td_jump_wf V isnan nan nan_isnan). Qed.

  (** Every history of accepted and rejected steps keeps the chain's (position, active set) well formed. *)
  Theorem C10_run_wf :
    forall lo hi h x a, WF lo hi x a -> legal_run V isnan nan lo hi x a h ->
    WF lo hi (fst (td_run V nan x a h)) (snd (td_run V nan x a h)).
  Proof. exact (td_run_wf V isnan nan nan_isnan). Qed.

  (** The active set of a well-formed state IS the NaN pattern of its position: re-deriving it
      ([_activate_proposals] on start, after clear, on resume) changes nothing. *)
  Theorem C10_active_is_pattern :
    forall lo hi x a, WF lo hi x a -> pattern_of V isnan x = a.
  Proof. exact (wf_pattern V isnan). Qed.

  (** A temperature sweep hands whole (position, active set) pairs from level to level: all
      levels are well formed afterwards, whatever the permutation. *)
  Theorem C10_swap_wf :
    forall lo hi (lv : list (tdpos V * list bool)) (idx : list nat),
    Forall (fun p => WF lo hi (fst p) (snd p)) lv -> Forall (fun k => (k < length lv)%nat) idx ->
    Forall (fun p => WF lo hi (fst p) (snd p)) (map (fun k => nth k lv ({| vals := []; kidx := 0 |}, [])) idx).
  Proof. exact (swap_wf V isnan). Qed.
End C10.
Print Assumptions C10_jump_wf.
Print Assumptions C10_run_wf.
Print Assumptions C10_active_is_pattern.
Print Assumptions C10_swap_wf.

(** Non-vacuity: a concrete well-formed state (3 components, the middle one inactive), and a
    birth of that component, checked by computation on the executable model. *)
From Epsie Require Import Exec.ExecC10.
Example C10_example :
  wfb 0 3 [[5]; [-2]; [7; 8]] 2 [true; false; true] = true
  /\ (let '(x', a') := td_jump Z nan {| vals := [[5]; [-2]; [7; 8]]; kidx := 2 |} [true; false; true]
                         {| new_k := 3; mask := [1%nat]; births := [[1]; [9]; [1; 1]]; jumps := [[6]; [1]; [3; 4]] |} in
      wfb 0 3 (vals Z x') (kidx Z x') a' && zss_eqb (vals Z x') [[6]; [9]; [3; 4]]) = true.
Proof. vm_compute. split; reflexivity. Qed.
