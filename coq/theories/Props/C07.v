(** C07 — chains are independent of the pool, of scheduling and of each other.
    Statements only; proofs in [Wiring_proofs].  Partial by nature: operating-system process
    pools enter only through the semantics of [map] (evaluation order, copying of arguments). *)
From Coq Require Import ZArith List Bool Permutation.
From Epsie Require Import Base Wiring Wiring_proofs.
Import ListNotations.

(** The pool does not matter: if every chain's evolution touches only cells reachable from that
    chain and no cell is reachable from two chains, then serial evaluation in ANY order and
    evaluation on copies of the chains in ANY order give every chain the same output (a digest of
    everything it read) and leave the same contents in its cells - namely what the chain produces
    when run alone. *)
Theorem C07_pool_independent :
  forall (progs : list (list prim)) (fps : list (list loc)),
  (forall i l, In l (locs (nth i progs [])) -> In l (nth i fps [])) ->
  (forall i j l, i <> j -> In l (nth i fps []) -> ~ In l (nth j fps [])) ->
  forall (order1 order2 : list nat) (h0 : heap),
  NoDup order1 -> NoDup order2 -> Permutation order1 order2 ->
  let rs := run_serial progs order1 h0 [] in
  let rc := run_copy progs fps order2 h0 h0 [] in
  (forall i, In i order1 -> out_of i (snd rs) = Some (snd (alone progs h0 i)) /\ out_of i (snd rc) = Some (snd (alone progs h0 i)))
  /\ (forall i l, In i order1 -> In l (nth i fps []) -> fst rs l = fst rc l).
Proof. exact pool_independent. Qed.
Print Assumptions C07_pool_independent.

(** Other chains do not matter: whatever differs outside chain i's cells (another chain's start
    position, proposals, generator), chain i's output is the same. *)
Theorem C07_neighbours_irrelevant :
  forall (progs : list (list prim)) (fps : list (list loc)),
  (forall i l, In l (locs (nth i progs [])) -> In l (nth i fps [])) ->
  (forall i j l, i <> j -> In l (nth i fps []) -> ~ In l (nth j fps [])) ->
  forall (order : list nat) (h0 h0' : heap) (i : nat),
  NoDup order -> In i order -> agree (nth i fps []) h0 h0' ->
  out_of i (snd (run_serial progs order h0 [])) = out_of i (snd (run_serial progs order h0' [])).
Proof. exact neighbours_irrelevant. Qed.
Print Assumptions C07_neighbours_irrelevant.

(** The constructors give every chain its own generator, annealer copy and proposal copies: the
    footprints of distinct chains are disjoint, and everything a chain is wired to lies in its own. *)
Theorem C07_footprints_disjoint :
  forall s i j l, i <> j -> In l (footprint s i) -> ~ In l (footprint s j).
Proof. exact footprints_disjoint. Qed.
Print Assumptions C07_footprints_disjoint.

Theorem C07_wiring_in_footprint :
  forall s i t q, (t < nlevels s)%nat -> (q < nprops s)%nat ->
  In (gen_loc s i) (footprint s i) /\ In (ann_loc s i) (footprint s i) /\ In (prop_loc s i t q) (footprint s i).
Proof. exact wiring_in_footprint. Qed.
Print Assumptions C07_wiring_in_footprint.

(** The code as it was (one DynamicalAnnealer object handed to every chain, since repaired in
    /repo): the footprints meet, serial evaluation differs from evaluation on copies, and the
    result depends on the order in which the chains are evaluated. *)
Theorem C07_refuted_shared_annealer_serial_vs_copy :
  out_of 1 (snd (run_serial progs2 [0; 1] h00 []))
  <> out_of 1 (snd (run_copy progs2 [footprint_shared s2 0; footprint_shared s2 1] [0; 1] h00 h00 [])).
Proof. exact shared_annealer_serial_differs_from_copy. Qed.
Print Assumptions C07_refuted_shared_annealer_serial_vs_copy.

Theorem C07_refuted_shared_annealer_order :
  out_of 1 (snd (run_serial progs2 [0; 1] h00 [])) <> out_of 1 (snd (run_serial progs2 [1; 0] h00 [])).
Proof. exact shared_annealer_order_matters. Qed.
Print Assumptions C07_refuted_shared_annealer_order.

(** Non-vacuity: two-chain programs wired by [construct] meet the premises and are pool independent. *)
Example C07_example :
  snd (run_serial progs2' [0; 1] h00 []) = snd (run_copy progs2' [footprint s2 0; footprint s2 1] [0; 1] h00 h00 [])
  /\ out_of 1 (snd (run_serial progs2' [1; 0] h00 [])) = out_of 1 (snd (run_serial progs2' [0; 1] h00 [])).
Proof. exact copied_annealer_pool_independent. Qed.
