(** C13 — adaptation follows acceptance in the documented direction and then stops.
    Statements only; proofs in [Adapt_proofs].  The update functions take the proposal's own
    adaptation state, its own step counter and the last acceptance record (and position) of
    its own chain — nothing else can influence them. *)
From Coq Require Import Reals Lra Lia ZArith List Bool.
From Epsie Require Import Base Num NumR Adapt Adapt_proofs.
Import ListNotations.
Local Open Scope R_scope.

(** Veitch family: inside the window an accepted step narrows no component and a rejected step
    widens none (with a non-negative decay factor) ... *)
Theorem C13_veitch_up :
  forall (p : @veitch R), 0 < v_target p < 1 -> Forall (fun d => 0 <= d) (v_deltas p) ->
  length (v_std p) = length (v_deltas p) ->
  forall nsteps, veitch_window p nsteps = true -> 0 <= veitch_factor p nsteps ->
  Forall2 Rle (v_std p) (v_std (veitch_update p nsteps true)).
Proof. exact veitch_direction_up. Qed.
Print Assumptions C13_veitch_up.

Theorem C13_veitch_down :
  forall (p : @veitch R), 0 < v_target p < 1 -> Forall (fun d => 0 <= d) (v_deltas p) ->
  length (v_std p) = length (v_deltas p) ->
  forall nsteps, veitch_window p nsteps = true -> 0 <= veitch_factor p nsteps ->
  Forall2 Rge (v_std p) (v_std (veitch_update p nsteps false)).
Proof. exact veitch_direction_down. Qed.
Print Assumptions C13_veitch_down.

(** ... and the default decay 1/log10(duration) makes the factor non-negative on the whole window
    (dk^(-1/log10 T) >= 0.1 for 1 <= dk <= T). *)
Theorem C13_veitch_default_factor :
  forall (p : @veitch R) nsteps, (1 < v_T p)%Z -> v_decay p = 1 / (ln (IZR (v_T p)) / ln 10) ->
  veitch_window p nsteps = true -> 0 <= veitch_factor p nsteps.
Proof.
  intros p nsteps HT Hd Hw.
  (* the lemma was proved in a section whose length hypothesis lia happened to pick up; it is not needed: *)
  set (q := {| v_std := []; v_deltas := []; v_T := v_T p; v_decay := v_decay p; v_target := v_target p; v_start := v_start p |}).
  change (0 <= veitch_factor q nsteps). apply veitch_default_factor; auto.
Qed.
Print Assumptions C13_veitch_default_factor.

(** Sivia-Skilling family: a cumulative acceptance rate above the target narrows no width, a rate
    below it widens none. *)
Theorem C13_ss_direction :
  forall (p : @ss R), 0 < s_target p < 1 -> forall nsteps (acc : bool),
  Forall (fun s => 0 < s) (s_std p) ->
  let nacc := (s_nacc p + (if acc then 1 else 0))%Z in
  let niter := (nsteps - (s_start p - 1) + 1)%Z in
  (0 <= nacc <= niter)%Z -> (0 < niter)%Z ->
  (s_target p < IZR nacc / IZR niter -> Forall2 Rle (s_std p) (s_std (ss_update p nsteps acc)))
  /\ (IZR nacc / IZR niter < s_target p -> Forall2 Rge (s_std p) (s_std (ss_update p nsteps acc)))
  /\ Forall (fun s => 0 < s) (s_std (ss_update p nsteps acc)).
Proof. exact ss_direction. Qed.
Print Assumptions C13_ss_direction.

(** Andrieu-Thoms (global scale), adaptive eigenvector: the log-scale rises strictly when the
    acceptance ratio is above the target and falls strictly when below. *)
Theorem C13_at_direction :
  forall (p : @at_state R), a_decayc p = exp (- (6 / 10) * ln (IZR (a_T p))) ->
  forall nsteps ar x, at_window p nsteps = true ->
  (a_target p < ar -> a_loglam p < a_loglam (at_update p nsteps ar x))
  /\ (ar < a_target p -> a_loglam (at_update p nsteps ar x) < a_loglam p)
  /\ (0 <= ar <= 1 -> 0 < a_target p < 1 -> Rabs (a_loglam (at_update p nsteps ar x) - a_loglam p) < 1).
Proof. exact at_direction. Qed.
Print Assumptions C13_at_direction.

Theorem C13_eigenvector_direction :
  forall (p : @rm_state R), r_decayc p = exp (- (6 / 10) * ln (IZR (r_T p))) ->
  forall nsteps ar, rm_window p nsteps = true ->
  (r_target p < ar -> r_log p < r_log (eig_update p nsteps ar))
  /\ (ar < r_target p -> r_log (eig_update p nsteps ar) < r_log p).
Proof. exact eig_direction. Qed.
Print Assumptions C13_eigenvector_direction.

(** Solid angle: kappa is a concentration: it falls (the proposal widens) above target, rises below. *)
Theorem C13_solid_angle_direction :
  forall (p : @rm_state R), r_decayc p = exp (- (6 / 10) * ln (IZR (r_T p))) ->
  forall nsteps ar, rm_window p nsteps = true ->
  (r_target p < ar -> kappa_of (kappa_update p nsteps ar) < kappa_of p)
  /\ (ar < r_target p -> kappa_of p < kappa_of (kappa_update p nsteps ar))
  /\ 0 < kappa_of (kappa_update p nsteps ar).
Proof. exact kappa_direction. Qed.
Print Assumptions C13_solid_angle_direction.

(** Frozen: once the adaptation duration has elapsed (counted from the start step) the update is the
    identity on the whole adaptation state, for every acceptance outcome and position — and so it
    stays for every later history. (The Sivia-Skilling family has no end of adaptation.) *)
Theorem C13_veitch_frozen :
  forall (p : @veitch R) nsteps acc, (v_T p <= dkZ nsteps (v_start p))%Z -> veitch_update p nsteps acc = p.
Proof. exact veitch_frozen. Qed.
Print Assumptions C13_veitch_frozen.

Theorem C13_veitch_frozen_forever :
  forall (p : @veitch R) (hist : list (Z * bool)),
  Forall (fun h => (v_T p <= dkZ (fst h) (v_start p))%Z) hist ->
  fold_left (fun q h => veitch_update q (fst h) (snd h)) hist p = p.
Proof. exact veitch_frozen_forever. Qed.
Print Assumptions C13_veitch_frozen_forever.

Theorem C13_at_frozen :
  forall (p : @at_state R) nsteps ar x, (a_T p <= dkZ nsteps (a_start p))%Z -> at_update p nsteps ar x = p.
Proof. exact at_frozen. Qed.
Print Assumptions C13_at_frozen.

Theorem C13_eig_kappa_frozen :
  forall (p : @rm_state R) nsteps ar, (r_T p <= dkZ nsteps (r_start p))%Z ->
  eig_update p nsteps ar = p /\ kappa_update p nsteps ar = p.
Proof. exact rm_frozen. Qed.
Print Assumptions C13_eig_kappa_frozen.

(** Non-vacuity: duration 100, step 10 is inside the Veitch window and its default factor is >= 0. *)
Example C13_example :
  let p := {| v_std := [1]; v_deltas := [10]; v_T := 100; v_decay := 1 / (ln 100 / ln 10); v_target := 234 / 1000; v_start := 1 |} in
  veitch_window p 10 = true /\ 0 <= veitch_factor p 10.
Proof.
  intros p. split; [reflexivity|]. apply veitch_default_factor; reflexivity.
Qed.

(** ** Componentwise and full-covariance Andrieu-Thoms, adaptive eigenvector with its covariance
    recursion ([AdaptM]): every component's log-scale follows the acceptance ratio of that
    component's own virtual move; the full-covariance variants move the global log-scale; and all
    of them are the identity on their whole state (means, second moments, scales, covariance)
    once the duration has elapsed. *)
From Epsie Require Import AdaptM AdaptM_proofs.

Theorem C13_at_componentwise_direction :
  forall (p : @atc_state R), c_decayc p = exp (- (6 / 10) * ln (IZR (c_T p))) ->
  forall nsteps ars x i, atc_window p nsteps = true -> (i < length (c_loglam p))%nat -> (i < length ars)%nat ->
  let l := nth i (c_loglam p) 0 in let l' := nth i (c_loglam (atc_update p nsteps ars x)) 0 in let a := nth i ars 0 in
  (c_target p < a -> l < l') /\ (a < c_target p -> l' < l).
Proof. exact atc_direction. Qed.
Print Assumptions C13_at_componentwise_direction.

Theorem C13_at_componentwise_fullcov_direction :
  forall (p : @atcf_state R) nsteps ars x i,
  g_decayc p = exp (- (6 / 10) * ln (IZR (g_T p))) -> atcf_window p nsteps = true ->
  (i < length (g_loglam p))%nat -> (i < length ars)%nat ->
  let l := nth i (g_loglam p) 0 in let l' := nth i (g_loglam (atcf_update p nsteps ars x)) 0 in let a := nth i ars 0 in
  (g_target p < a -> l < l') /\ (a < g_target p -> l' < l).
Proof. exact atcf_direction. Qed.
Print Assumptions C13_at_componentwise_fullcov_direction.

Theorem C13_at_fullcov_direction :
  forall (p : @atf_state R), f_decayc p = exp (- (6 / 10) * ln (IZR (f_T p))) ->
  forall nsteps ar x, atf_window p nsteps = true ->
  (f_target p < ar -> f_loglam p < f_loglam (atf_update p nsteps ar x))
  /\ (ar < f_target p -> f_loglam (atf_update p nsteps ar x) < f_loglam p).
Proof. exact atf_direction. Qed.
Print Assumptions C13_at_fullcov_direction.

Theorem C13_matrix_variants_frozen :
  (forall (p : @atf_state R) nsteps ar x, (f_T p <= dkZ nsteps (f_start p))%Z -> atf_update p nsteps ar x = p)
  /\ (forall (p : @atc_state R) nsteps ars x, (c_T p <= dkZ nsteps (c_start p))%Z -> atc_update p nsteps ars x = p)
  /\ (forall (p : @atcf_state R) nsteps ars x, (g_T p <= dkZ nsteps (g_start p))%Z -> atcf_update p nsteps ars x = p)
  /\ (forall (p : @rm_state R) cov mu nsteps ar x, (r_T p <= dkZ nsteps (r_start p))%Z ->
        eigc_update p cov mu nsteps ar x = ((cov, mu), p)).
Proof. exact (conj atf_frozen (conj atc_frozen (conj atcf_frozen eigc_frozen))). Qed.
Print Assumptions C13_matrix_variants_frozen.

Theorem C13_matrix_variants_frozen_forever :
  (forall (p : @atf_state R) (hist : list (Z * R * list R)),
     Forall (fun h => (f_T p <= dkZ (fst (fst h)) (f_start p))%Z) hist ->
     fold_left (fun q h => atf_update q (fst (fst h)) (snd (fst h)) (snd h)) hist p = p)
  /\ (forall (p : @atc_state R) (hist : list (Z * list R * list R)),
     Forall (fun h => (c_T p <= dkZ (fst (fst h)) (c_start p))%Z) hist ->
     fold_left (fun q h => atc_update q (fst (fst h)) (snd (fst h)) (snd h)) hist p = p)
  /\ (forall (p : @atcf_state R) (hist : list (Z * list R * list R)),
     Forall (fun h => (g_T p <= dkZ (fst (fst h)) (g_start p))%Z) hist ->
     fold_left (fun q h => atcf_update q (fst (fst h)) (snd (fst h)) (snd h)) hist p = p).
Proof. exact (conj atf_frozen_forever (conj atc_frozen_forever atcf_frozen_forever)). Qed.
Print Assumptions C13_matrix_variants_frozen_forever.

(** ** "Once the configured adaptation duration has elapsed ..." on the chain's own clock:
    [_nsteps] advances by one per chain iteration and the window reads [_nsteps // jump_interval];
    from chain iteration [jump_interval * (duration + start_step - 1)] on, whatever the acceptance
    records, positions and virtual-move ratios that follow, the adaptation state of every family
    with an end of adaptation is what it was: all later samples come from one fixed kernel. *)
From Epsie Require Import Clock AdaptClock_proofs.

Theorem C13_frozen_on_the_chain_clock :
  (forall (v : @veitch R) (c : pclock) (hist : list bool),
     (1 <= pk c)%nat -> (Z.of_nat (pk c) * (v_T v + v_start v - 1) <= Z.of_nat (pn c))%Z ->
     fst (fold_left (run1 _ _ (fun st n acc => veitch_update st n acc)) hist (v, c)) = v)
  /\ (forall (p : @at_state R) (c : pclock) (hist : list (R * list R)),
     (1 <= pk c)%nat -> (Z.of_nat (pk c) * (a_T p + a_start p - 1) <= Z.of_nat (pn c))%Z ->
     fst (fold_left (run1 _ _ (fun st n i => at_update st n (fst i) (snd i))) hist (p, c)) = p)
  /\ (forall (p : @atf_state R) (c : pclock) (hist : list (R * list R)),
     (1 <= pk c)%nat -> (Z.of_nat (pk c) * (f_T p + f_start p - 1) <= Z.of_nat (pn c))%Z ->
     fst (fold_left (run1 _ _ (fun st n i => atf_update st n (fst i) (snd i))) hist (p, c)) = p)
  /\ (forall (p : @atc_state R) (c : pclock) (hist : list (list R * list R)),
     (1 <= pk c)%nat -> (Z.of_nat (pk c) * (c_T p + c_start p - 1) <= Z.of_nat (pn c))%Z ->
     fst (fold_left (run1 _ _ (fun st n i => atc_update st n (fst i) (snd i))) hist (p, c)) = p)
  /\ (forall (p : @atcf_state R) (c : pclock) (hist : list (list R * list R)),
     (1 <= pk c)%nat -> (Z.of_nat (pk c) * (g_T p + g_start p - 1) <= Z.of_nat (pn c))%Z ->
     fst (fold_left (run1 _ _ (fun st n i => atcf_update st n (fst i) (snd i))) hist (p, c)) = p)
  /\ (forall (p : @rm_state R) (c : pclock) (hist : list R),
     (1 <= pk c)%nat -> (Z.of_nat (pk c) * (r_T p + r_start p - 1) <= Z.of_nat (pn c))%Z ->
     fst (fold_left (run1 _ _ (fun st n ar => eig_update st n ar)) hist (p, c)) = p
     /\ fst (fold_left (run1 _ _ (fun st n ar => kappa_update st n ar)) hist (p, c)) = p).
Proof.
  exact (conj veitch_frozen_clock (conj at_frozen_clock (conj atf_frozen_clock (conj atc_frozen_clock
         (conj atcf_frozen_clock eig_kappa_frozen_clock))))).
Qed.
Print Assumptions C13_frozen_on_the_chain_clock.

(** Sivia-Skilling with a full covariance (the last adaptive class, [AdaptM.ssc_update]): the
    covariance is rescaled by a factor > 1 when the cumulative acceptance rate is above the target
    and < 1 when below - the proposal widens (narrows) in EVERY direction, as a quadratic form -
    and stays positive semidefinite. *)
Theorem C13_ss_fullcov_direction :
  forall (p : @ssc R) (n : nat) nsteps (acc : bool),
  0 < q_target p < 1 ->
  let nacc := (q_nacc p + (if acc then 1 else 0))%Z in
  let niter := (nsteps - (q_start p - 1) + 1)%Z in
  (0 <= nacc <= niter)%Z -> (0 < niter)%Z -> psd n (q_cov p) ->
  psd n (q_cov (ssc_update p nsteps acc))
  /\ (q_target p < IZR nacc / IZR niter ->
      forall w, length w = n -> @quad R _ (q_cov p) w <= @quad R _ (q_cov (ssc_update p nsteps acc)) w)
  /\ (IZR nacc / IZR niter < q_target p ->
      forall w, length w = n -> @quad R _ (q_cov (ssc_update p nsteps acc)) w <= @quad R _ (q_cov p) w).
Proof. exact ssc_direction_psd. Qed.
Print Assumptions C13_ss_fullcov_direction.
