(** C17 — ladder coherence: every level samples at the beta its swaps use. Statements only;
    proofs in [Ladder_proofs]. *)
From Coq Require Import Reals Lra Lia List Permutation Sorted.
From Epsie Require Import Base Num NumR Ladder Ladder_proofs.
Import ListNotations.
Local Open Scope R_scope.

(** Betas given in any order are held ordered from coldest to hottest, each in [0,1], same multiset;
    a beta outside [0,1] is refused. *)
Theorem C17_setter_sorted_range :
  forall bs out : list R, set_betas bs = Some out ->
  Sorted Rge out /\ Permutation out bs /\ Forall (fun b => 0 <= b <= 1) out.
Proof. exact set_betas_spec. Qed.
Print Assumptions C17_setter_sorted_range.

Theorem C17_setter_rejects :
  forall (bs : list R) b, In b bs -> ~ (0 <= b <= 1) -> set_betas bs = None.
Proof. exact set_betas_rejects. Qed.
Print Assumptions C17_setter_rejects.

(** At construction the levels get exactly the ladder the swaps use (also after the annealer's
    setup has put the hottest beta to 0) ... *)
Theorem C17_construct_coherent :
  forall (T : Type) (N : Num T) tmax (bs : list T) st, construct tmax bs = Some st -> lv_betas st = sw_betas st.
Proof. intros. eapply construct_coherent; eauto. Qed.
Print Assumptions C17_construct_coherent.

(** ... and after any number of annealer calls, for every acceptance history, tau and nu, the beta
    of every level is still the beta used to decide its swaps (any numeric instance). *)
Theorem C17_level_beta_is_ladder_beta :
  forall (T : Type) (N : Num T) nu tau (calls : list (T * list T)) (st : @lstate T),
  Coherent st -> Coherent (fold_left (fun s c => lcall nu tau (fst c) s (snd c)) calls st).
Proof. intros. now apply coherent_after_any_history. Qed.
Print Assumptions C17_level_beta_is_ladder_beta.

(** One annealer call over the reals: the coldest and the hottest beta are kept, the number of
    levels is kept, and with the hottest beta at 0 (default infinite hottest temperature) every
    rebuilt beta lies strictly between 0 and its colder neighbour: the ladder stays strictly
    ordered and inside [0,1]. *)
Theorem C17_anneal_keeps_ends_and_order :
  forall (nu tau t b0 : R) (rest Sv ars : list R) hot,
  0 < b0 <= 1 -> (length rest <= S (length Sv))%nat -> rest <> [] -> last rest hot <= 0 ->
  let '(bs', S') := anneal nu tau t (b0 :: rest) Sv ars in
  hd 0 bs' = b0 /\ last bs' hot = last rest hot /\ length bs' = S (length rest)
  /\ chain_desc b0 (tl bs') /\ length S' = length Sv.
Proof. exact anneal_keeps_order. Qed.
Print Assumptions C17_anneal_keeps_ends_and_order.

Theorem C17_rebuilt_beta_between :
  forall prev s : R, 0 < prev -> 0 < 1 / (1 / prev + exp s) < prev.
Proof. exact rebuilt_between. Qed.
Print Assumptions C17_rebuilt_beta_between.

(** make_betas_ladder(ntemps, maxtemp) with maxtemp >= 1 yields betas in [1/maxtemp, 1]. *)
Theorem C17_make_ladder_range :
  forall (maxtemp : R) (i n : nat), 1 <= maxtemp -> (i < n)%nat -> (1 < n)%nat ->
  1 / maxtemp <= geom_elem (1 / maxtemp) i n <= 1.
Proof. exact geom_elem_range. Qed.
Print Assumptions C17_make_ladder_range.

(** Non-vacuity: a four-level ladder given out of order, annealed once. *)
Example C17_example :
  exists st, construct true [/2; 1; /10; /4] = Some st /\ sw_betas st = [1; /2; /4; 0] /\ lv_betas st = sw_betas st.
Proof.
  unfold construct, set_betas, in01. cbn [forallb nleb nzero none NumReal sort_desc insert_desc].
  repeat (unfold Rleb at 1;
          match goal with |- context [Rle_dec ?a ?b] => destruct (Rle_dec a b); try lra end;
          cbn [andb insert_desc nleb NumReal]).
  eexists. split; [reflexivity|]. cbn. split; reflexivity.
Qed.
