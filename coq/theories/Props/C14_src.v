(** C14, source tie: the cap of the Sivia-Skilling widths.  With the factor [alpha ** 0.5] and the test
    [alpha ** 0.5 * max(std) <= max_std] as they are written in /repo's normal.py today ([Gen/SrcAdapt.v], regenerated on
    every run), a width that was at most the largest one is, after the update is applied, positive and at most the cap - for
    every factor, width and cap; and these generated pieces are the model's [ss_update], about which
    [C14_ss_cap] ([Props/C14.v]) is stated.  Statements only; proofs in [SrcTie_ss]. *)
From Coq Require Import Reals ZArith List Bool Lra.
From Epsie Require Import Base Num NumR Adapt Gen.SrcAdapt SrcTie_ss.
Local Open Scope R_scope.

Theorem C14_src_ss_cap_respected :
  forall a0 mx cap s : R,
  0 < a0 -> 0 < s <= mx -> src_ss_diag_applies a0 mx cap = true -> 0 < s * src_ss_diag_factor a0 <= cap.
Proof. exact src_ss_cap_respected. Qed.
Print Assumptions C14_src_ss_cap_respected.

Theorem C14_src_ss_update_is_the_model :
  forall (p : @ss R) (nsteps : Z) (acc : bool),
  let nacc := (s_nacc p + (if acc then 1 else 0))%Z in
  let a0 := src_ss_alpha (IZR nacc) (IZR nsteps) (IZR (s_start p)) (s_target p) in
  0 < a0 ->
  s_std (ss_update p nsteps acc)
  = (if match s_cap p with None => true | Some cap => src_ss_diag_applies a0 (Adapt.list_max (s_std p)) cap end
     then map (fun s => s * src_ss_diag_factor a0) (s_std p) else s_std p)
  /\ s_nacc (ss_update p nsteps acc) = nacc.
Proof. exact src_ss_update_tie. Qed.
Print Assumptions C14_src_ss_update_is_the_model.

(** not vacuous: factor 4 (root 2) on widths up to 3 under cap 7 applies, under cap 5 it does not *)
Example C14_src_cap_example : src_ss_diag_applies 4 3 7 = true /\ src_ss_diag_applies 4 3 5 = false.
Proof.
  rewrite !src_ss_diag_applies_val by lra. replace 4 with (2 * 2) by lra. rewrite sqrt_square by lra.
  split; [apply Rleb_true | apply Rleb_false]; lra.
Qed.
