(** C17, source tie: the scalar arithmetic of the dynamical annealer as written in /repo's
    ptchain.py today ([Gen/SrcLadder.v], regenerated on every run) is the model's over the reals:
    the vanishing decay, the clip of ratios above 1, the step of each log temperature gap, and the
    recursion that rebuilds each intermediate beta from its colder neighbour; the translator also
    checks the loop ranges (the two ends of the ladder are never touched) and that each rebuilt beta
    is assigned to its level in the same iteration of the loop.
    Statements only; proofs in [SrcTie_ladder]. *)
From Coq Require Import Reals List.
From Epsie Require Import Base Num NumR Ladder Gen.SrcLadder SrcTie_ladder.
Import ListNotations.
Local Open Scope R_scope.

Theorem C17_src_decay : forall nu tau t : R, src_ann_decay t nu tau = decay nu tau t.
Proof. exact src_ann_decay_tie. Qed.
Print Assumptions C17_src_decay.

Theorem C17_src_clip : forall a : R, src_ann_clip a = clip1 a.
Proof. exact src_ann_clip_tie. Qed.
Print Assumptions C17_src_clip.

Theorem C17_src_gap_step :
  forall (d s a0 a1 : R) (S' r : list R),
  update_S d (s :: S') (a0 :: a1 :: r) = (s + src_ann_S_step d a0 a1) :: update_S d S' (a1 :: r).
Proof. exact src_ann_S_step_tie. Qed.
Print Assumptions C17_src_gap_step.

Theorem C17_src_rebuilt_beta :
  forall (prev x y s : R) (rest S' : list R),
  rebuild prev (x :: y :: rest) (s :: S') = src_ann_beta prev s :: rebuild (src_ann_beta prev s) (y :: rest) S'.
Proof. exact src_ann_beta_tie. Qed.
Print Assumptions C17_src_rebuilt_beta.
