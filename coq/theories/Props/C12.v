(** C12 — proposed points always lie in the proposal's declared domain.
    Statements only; proofs in [Dens_range_proofs].  Over the reals; floating-point effects at the
    faces (a wrapped angle of exactly 2 pi, cosines rounding outside [-1, 1]) are explored on the
    implementation only. *)
From Coq Require Import Reals ZArith List Bool.
From Epsie Require Import Num NumR Dens Law_cells Dens_angular_proofs Dens_range_proofs.
Import ListNotations.
Local Open Scope R_scope.

(** bounded discrete: whatever the draws and the scale, the rejection loop returns an integer within
    the bounds (every numeric instance), refuses from outside them ... *)
Theorem C12_bounded_discrete : forall {T} (rnd fc : T -> Z) succ (lo hi x : Z) (draws : list T) y n,
  bd_jump_from rnd fc succ lo hi x draws = Jumped y n -> (lo <= y <= hi)%Z.
Proof. exact @bd_from_in_bounds. Qed.
Theorem C12_bounded_discrete_refuses : forall {T} (rnd fc : T -> Z) succ (lo hi x : Z) (draws : list T),
  (x < lo \/ hi < x)%Z -> bd_jump_from rnd fc succ lo hi x draws = Refused.
Proof. exact @bd_refuses_outside. Qed.
(** ... and, without successive jumps, discrete proposals never propose the current integer: the only
    draw mapped to displacement 0 is exactly 0.0, and the loop redraws it *)
Theorem C12_discrete_moves : forall {T} (rnd fc : T -> Z) (x : Z) (draws : list T) y n,
  nd_jump rnd fc false x draws = Some (y, n) -> y <> x.
Proof. exact @nd_jump_moves. Qed.
Theorem C12_bounded_discrete_moves : forall {T} (rnd fc : T -> Z) (lo hi x : Z) (draws : list T) y n,
  bd_jump1 rnd fc false lo hi x draws = Some (y, n) -> y <> x.
Proof. intros T rnd fc lo hi x draws y n H. destruct (bd_jump_in_bounds rnd fc false lo hi x draws y n H) as (_ & B & _). now apply B. Qed.
Theorem C12_discrete_only_zero_stays : forall (x : Z) (z : R),
  (z <> 0 -> nd_jump1 rnd_evenR floorceilR false x z <> x) /\ nd_jump1 rnd_evenR floorceilR false x 0 = x.
Proof. intros. split; [apply nd_single_draw_moves|apply nd_jump_zero_draw]. Qed.

(** bounded normal *)
Theorem C12_bounded_normal : forall (lo hi x : R) draws y n, @bn_jump_from R _ lo hi x draws = Jumped y n -> lo <= y <= hi.
Proof. exact bn_from_in_bounds. Qed.
Theorem C12_bounded_normal_refuses : forall (lo hi x : R) draws, x < lo \/ hi < x -> @bn_jump_from R _ lo hi x draws = Refused.
Proof. exact bn_refuses_outside. Qed.

(** angular: every proposed angle lies in [0, 2 pi) *)
Theorem C12_angular : forall x z : R, 0 < PI -> 0 <= ang_jump1 PI pymodR x z < 2 * PI.
Proof. exact ang_jump_range. Qed.

(** solid angle: azimuth in [0, 2 pi), polar angle in [0, pi] (atan2 with values in (-pi, pi]) *)
Theorem C12_solid_angle : forall (atan2R : R -> R -> R), (forall y x, - PI < atan2R y x <= PI) ->
  forall v : R * R * R, let '(p, t) := c2s PI acos atan2R v in 0 <= p < 2 * PI /\ 0 <= t <= PI.
Proof. exact c2s_range. Qed.

(** births land where their own density is positive *)
Theorem C12_uniform_birth : forall lo hi u : R, lo < hi -> 0 <= u <= 1 -> @ubirth_logpdf1 R _ lo hi (lo + (hi - lo) * u) <> None.
Proof. exact ubirth_in_support. Qed.
Theorem C12_lognormal_birth : forall l2p m s y : R, lnbirth_logpdf1 l2p m s (exp y) <> None.
Proof. exact lnbirth_in_support. Qed.

Print Assumptions C12_bounded_discrete.
Print Assumptions C12_bounded_discrete_refuses.
Print Assumptions C12_discrete_moves.
Print Assumptions C12_bounded_discrete_moves.
Print Assumptions C12_discrete_only_zero_stays.
Print Assumptions C12_bounded_normal.
Print Assumptions C12_bounded_normal_refuses.
Print Assumptions C12_angular.
Print Assumptions C12_solid_angle.
Print Assumptions C12_uniform_birth.
Print Assumptions C12_lognormal_birth.
