(** C11, source tie: the index proposal of a nested transdimensional proposal is a [BoundedDiscrete]; the
    probability mass that enters the reversibility argument ([bd_logpmf1]) is the law of [bd_jump1]
    ([Props/C02.v], cells and rejection series).  Here: one pass of the redraw loop of [BoundedDiscrete._jump]
    as written in /repo today ([Gen/SrcJump.v], regenerated on every run by tools/py2coq_jump.py) is the
    model's pass - round (successive) or floor/ceil away from zero, add to the current index, keep iff within
    the bounds and (successive or moved) - and iterating it to the first kept draw is [bd_jump1].
    Statements only; proofs in [SrcTie_jump]. *)
From Coq Require Import ZArith List Bool.
From Epsie Require Import Num Dens Gen.SrcJump SrcTie_jump.

Theorem C11_src_index_pass_is_the_model :
  forall {T} (rnd fc : T -> Z) succ (lo hi k : Z) (z : T),
  src_bd_accept rnd fc succ lo hi k z
  = (let k' := nd_jump1 rnd fc succ k z in if (lo <=? k')%Z && (k' <=? hi)%Z && nd_ok succ k k' then Some k' else None).
Proof. intros. apply src_bd_accept_pass. Qed.
Print Assumptions C11_src_index_pass_is_the_model.

Theorem C11_src_index_jump_is_the_model :
  forall {T} (rnd fc : T -> Z) succ (lo hi k : Z) (draws : list T),
  first_accepted (src_bd_accept rnd fc succ lo hi k) draws = bd_jump1 rnd fc succ lo hi k draws.
Proof. intros. apply src_bd_jump_tie. Qed.
Print Assumptions C11_src_index_jump_is_the_model.
