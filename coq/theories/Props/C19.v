(** C19 — resetting adaptation restores the initial adaptive state, every time.
    Statements only; proofs in [Alias_proofs] (array identity) and [Sweep_proofs] (which levels a
    sweep exchanges).  [exec true true]: the repaired reset installs copies of the stored values. *)
From Coq Require Import ZArith List Bool Lia.
From Epsie Require Import Base Alias Alias_proofs.
From Epsie Require Machine Sweep_proofs.
Import ListNotations.

(** The values stored at construction are never written, whatever the history ... *)
Theorem C19_initial_values_frozen :
  forall (ops : list op) (w : world) (s : nat),
  Tagged w -> s < length (inits w) ->
  init_contents (execs true true w ops) s = init_contents w s /\ inits (execs true true w ops) = inits w.
Proof. exact initial_values_frozen. Qed.
Print Assumptions C19_initial_values_frozen.

(** ... so a reset — the first and every later one, after any interleaving of adaptation steps,
    state reads/loads and earlier resets — gives the sampler exactly the constructed values. *)
Theorem C19_reset_restores_every_time :
  forall (ops : list op) (w : world) (s : nat),
  Tagged w -> s < length (regs w) -> s < length (inits w) ->
  sampler_contents (exec true true (execs true true w ops) (Reset s)) s = init_contents w s.
Proof. exact reset_restores_always. Qed.
Print Assumptions C19_reset_restores_every_time.

(** Resetting one sampler (level, chain) leaves every other one untouched. *)
Theorem C19_reset_touches_only_its_target :
  forall (w : world) (s s' : nat), Tagged w -> s' <> s -> s' < length (regs w) ->
  sampler_contents (exec true true w (Reset s)) s' = sampler_contents w s'.
Proof. intros w s s' HT Hne Hs. destruct (exec_copying w (Reset s) HT) as (_ & _ & _ & H & _). now apply H. Qed.
Print Assumptions C19_reset_touches_only_its_target.

(** The code as it was (reset installing the stored arrays themselves): the second reset after an
    in-place adaptation step does NOT restore the constructed values. *)
Theorem C19_refuted_second_reset :
  let w1 := execs true false w0 [Reset 0; InPlace 0 0 [4%Z; 4%Z]; Reset 0] in
  sampler_contents w1 0 <> init_contents w0 0.
Proof. exact second_reset_wrong_without_copy. Qed.
Print Assumptions C19_refuted_second_reset.

(** The window restarts at the current step: [start_step := max nsteps 1], so that
    dk = nsteps - start_step + 1 is 1 at the next adapted step (0 if reset before any step). *)
Theorem C19_window_restarts :
  forall nsteps : Z, (0 <= nsteps)%Z ->
  let start := Z.max nsteps 1 in (1 <= start)%Z /\ (nsteps - start + 1 <= 1)%Z /\ (1 <= nsteps -> nsteps - start + 1 = 1)%Z.
Proof. intros nsteps H. cbn zeta. lia. Qed.
Print Assumptions C19_window_restarts.

(** Parallel tempering with [reset_after_swap]: the levels whose proposals are reset after a sweep
    ([tk != swap_index[tk]]) are exactly the levels that took part in an accepted exchange, i.e. the
    levels whose state was exchanged — for every ladder size and every list of decisions
    ([dec tj] = the decision for the pair of levels (tj, tj+1), hottest pair first in [ds]). *)
Theorem C19_pt_resets_exchanged_levels :
  forall (n : nat) (ds : list bool) (t : nat), 0 < n -> length ds = n - 1 ->
  let idx := Machine.sweep_idx (n - 1) (seq 0 n) ds in
  let dec tj := nth (n - 2 - tj) ds false in
  In t (Machine.reset_levels idx) <-> t < n /\ ((S t < n /\ dec t = true) \/ (0 < t /\ dec (t - 1) = true)).
Proof. exact Sweep_proofs.reset_levels_spec. Qed.
Print Assumptions C19_pt_resets_exchanged_levels.

(** and a level keeps its occupant exactly when it is not reset *)
Theorem C19_pt_unexchanged_levels_keep_their_state :
  forall (n : nat) (ds : list bool) (t : nat), 0 < n -> t < n -> length ds = n - 1 ->
  let idx := Machine.sweep_idx (n - 1) (seq 0 n) ds in
  nth t idx 0 = t <-> ~ In t (Machine.reset_levels idx).
Proof.
  intros n ds t Hn Ht Hds idx. unfold Machine.reset_levels. rewrite filter_In, in_seq.
  unfold idx at 2. rewrite Sweep_proofs.sweep_idx_length. split.
  - intros E [_ H]. apply Bool.negb_true_iff, Nat.eqb_neq in H. congruence.
  - intros H. destruct (Nat.eq_dec (nth t idx 0) t) as [E|E]; [exact E|]. exfalso. apply H. split; [cbn; lia|].
    apply Bool.negb_true_iff, Nat.eqb_neq. congruence.
Qed.
Print Assumptions C19_pt_unexchanged_levels_keep_their_state.
