(** C19 — resetting adaptation restores the initial adaptive state, every time.
    Statements only; proofs in [Alias_proofs] (array identity) and [Sweep_proofs] (which levels a
    sweep exchanges).  [exec true true]: the repaired reset installs copies of the stored values. *)
From Coq Require Import ZArith List Bool Lia.
From Epsie Require Import Base Alias Alias_proofs.
Import ListNotations.

(** The values stored at construction are never written, whatever the history ... *)
Theorem C19_initial_values_frozen :
  forall (ops : list op) (w : world) (s : nat),
  Tagged w -> s < length (inits w) ->
  init_contents (execs true true w ops) s = init_contents w s /\ inits (execs true true w ops) = inits w.
Proof. exact initial_values_frozen. Qed.
Print Assumptions C19_initial_values_frozen.

(** ... so a reset — the first and every later one, after any interleaving of adaptation steps,
    state reads/loads and earlier resets — gives the sampler exactly the constructed values. *)
Theorem C19_reset_restores_every_time :
  forall (ops : list op) (w : world) (s : nat),
  Tagged w -> s < length (regs w) -> s < length (inits w) ->
  sampler_contents (exec true true (execs true true w ops) (Reset s)) s = init_contents w s.
Proof. exact reset_restores_always. Qed.
Print Assumptions C19_reset_restores_every_time.

(** Resetting one sampler (level, chain) leaves every other one untouched. *)
Theorem C19_reset_touches_only_its_target :
  forall (w : world) (s s' : nat), Tagged w -> s' <> s -> s' < length (regs w) ->
  sampler_contents (exec true true w (Reset s)) s' = sampler_contents w s'.
Proof. intros w s s' HT Hne Hs. destruct (exec_copying w (Reset s) HT) as (_ & _ & _ & H & _). now apply H. Qed.
Print Assumptions C19_reset_touches_only_its_target.

(** The code as it was (reset installing the stored arrays themselves): the second reset after an
    in-place adaptation step does NOT restore the constructed values. *)
Theorem C19_refuted_second_reset :
  let w1 := execs true false w0 [Reset 0; InPlace 0 0 [4%Z; 4%Z]; Reset 0] in
  sampler_contents w1 0 <> init_contents w0 0.
Proof. exact second_reset_wrong_without_copy. Qed.
Print Assumptions C19_refuted_second_reset.

(** The window restarts at the current step: [start_step := max nsteps 1], so that
    dk = nsteps - start_step + 1 is 1 at the next adapted step (0 if reset before any step). *)
Theorem C19_window_restarts :
  forall nsteps : Z, (0 <= nsteps)%Z ->
  let start := Z.max nsteps 1 in (1 <= start)%Z /\ (nsteps - start + 1 <= 1)%Z /\ (1 <= nsteps -> nsteps - start + 1 = 1)%Z.
Proof. intros nsteps H. cbn zeta. lia. Qed.
Print Assumptions C19_window_restarts.
