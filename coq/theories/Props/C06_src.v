(** C06, source tie: [C06_annealed_ladder_schedule_independent] holds because the annealed ladder is a fold
    over the sweeps made, each contributing with the clock [iteration // swap_interval] of the chain's global
    iteration.  Here, from /repo as it is today ([Gen/Src.v], regenerated on every run by tools/py2coq.py):
    the annealer's clock is that function - of the iteration and the swap interval, and of nothing that a
    clear or a split of the run changes (its generated definition has no other parameter) - so the fold with
    the generated clock is the model's [ladder_after]; and the annealer reads the row of acceptance ratios
    that the sweep of the same iteration wrote.  Statements only; proofs in [SrcTie_anneal]. *)
From Coq Require Import ZArith List.
From Epsie Require Import Base Num Ladder Machine Anneal_machine Gen.Src SrcTie_anneal.

Theorem C06_src_annealer_clock :
  forall it si : nat, src_ann_clock (Z.of_nat it) (Z.of_nat si) = Z.of_nat (it / si).
Proof. exact src_ann_clock_tie. Qed.
Print Assumptions C06_src_annealer_clock.

Theorem C06_src_ladder_is_a_fold_over_the_sweeps :
  forall {T : Type} `{Num T} (nu tau : T) (si : nat) (sweeps : list (nat * list nat * list T)) (st0 : @lstate T),
  fold_left (fun st '(it, _, ars) => lcall nu tau (nofZ (src_ann_clock (Z.of_nat it) (Z.of_nat si))) st ars) sweeps st0
  = ladder_after nu tau si st0 sweeps.
Proof. intros. apply src_ladder_after. Qed.
Print Assumptions C06_src_ladder_is_a_fold_over_the_sweeps.

Theorem C06_src_annealer_reads_the_row_the_sweep_wrote :
  forall it lastclear si : Z, src_ann_row it lastclear si = src_swap_row (src_swap_ii it lastclear) si.
Proof. exact src_ann_row_is_sweep_row. Qed.
Print Assumptions C06_src_annealer_reads_the_row_the_sweep_wrote.

Example C06_src_clock_ignores_clears : src_ann_clock 12 3 = 4%Z /\ src_ann_row 12 10 3 = 0%Z /\ src_ann_row 12 0 3 = 3%Z.
Proof. vm_compute. repeat split. Qed.
