(** C02 — a proposal's reported density is the law of its jumps; symmetric is symmetric.
    Statements only; proofs in [Law_cells], [Dens_discrete_proofs], [Dens_cont_proofs],
    [Dens_angular_proofs], [Cache_proofs].  [Phi] is the standard normal cdf (strictly increasing,
    Phi(-x) = 1 - Phi(x)); the mass of (a, b] is Phi b - Phi a.  The law of a jump is its
    push-forward: a draw z of the generator is mapped to the proposed point; a rejection loop
    returns the first accepted draw, whose law is the conditional one ([C02_rejection_series]). *)
From Coq Require Import Reals ZArith List Bool.
From Coquelicot Require Import Coquelicot.
From Epsie Require Import Num NumR Dens Law_cells Dens_discrete_proofs Dens_cont_proofs Dens_angular_proofs Cache Cache_proofs.
Import ListNotations.
Local Open Scope R_scope.

(** "retry until accepted": the first accepted draw lands in a set of mass m (inside an
    acceptance region of mass p) with probability sum_n (1-p)^n m = m / p *)
Theorem C02_rejection_series : forall p m : R, 0 < p <= 1 -> Series (fun n => (1 - p) ^ n * m) = m / p.
Proof. exact rejection_series. Qed.
Print Assumptions C02_rejection_series.

Section C02.
  Variable Phi : R -> R.
  Hypothesis Phi_incr : forall x y, x < y -> Phi x < Phi y.
  Hypothesis Phi_sym : forall x, Phi (- x) = 1 - Phi x.
  Variable l2p : R.
  Notation mass := (massR Phi).

  (** *** discrete families: which draws are mapped to a displacement of k *)
  Theorem C02_cell_floorceil : forall (x k : Z) (z : R), k <> 0%Z ->
    (nd_jump1 rnd_evenR floorceilR false x z = (x + k)%Z
     <-> if (0 <? k)%Z then fst (cell false k) < z <= snd (cell false k) else fst (cell false k) <= z < snd (cell false k)).
  Proof. exact jump_cell_floorceil. Qed.
  Theorem C02_cell_round : forall (x k : Z) (z : R),
    (fst (cell true k) < z < snd (cell true k) -> nd_jump1 rnd_evenR floorceilR true x z = (x + k)%Z)
    /\ (nd_jump1 rnd_evenR floorceilR true x z = (x + k)%Z -> fst (cell true k) <= z <= snd (cell true k)).
  Proof. exact jump_cell_round. Qed.

  (** NormalDiscrete reports the mass of that cell, and is symmetric *)
  Theorem C02_normal_discrete : forall (succ : bool) (sigma : R) (k : Z), 0 < sigma -> (succ = true \/ k <> 0%Z) ->
    nd_logpmf1 mass succ sigma k = Some (ln (cell_mass Phi succ sigma k)).
  Proof. exact (nd_reported_is_cell_mass Phi Phi_incr Phi_sym). Qed.
  Theorem C02_normal_discrete_symmetric : forall (succ : bool) (sigma : R) (x x' : Z),
    nd_logpmf1 mass succ sigma (x' - x) = nd_logpmf1 mass succ sigma (x - x').
  Proof. exact (nd_symmetric Phi). Qed.

  (** BoundedDiscrete (successive on or off) reports cell mass over the mass of the acceptance
      region of its rejection loop, and the cells of all reachable integers tile that region *)
  Theorem C02_bounded_discrete : forall (succ : bool) (sigma : R) (lo hi mu x : Z),
    0 < sigma -> (lo <= mu <= hi)%Z -> (lo <= x <= hi)%Z -> (succ = true \/ x <> mu) ->
    bd_logpmf1 mass succ lo hi sigma mu x = Some (ln (cell_mass Phi succ sigma (x - mu) / accept_mass Phi succ sigma lo hi mu)).
  Proof. exact (bd_reported_is_law Phi). Qed.
  Theorem C02_bounded_discrete_cells_tile : forall (succ : bool) (sigma : R) (lo hi mu : Z), (lo <= hi)%Z ->
    sum_cells Phi succ sigma (lo - mu) (S (Z.to_nat (hi - lo))) = accept_mass Phi succ sigma lo hi mu.
  Proof. exact (accept_is_union Phi). Qed.
  Theorem C02_bounded_discrete_accept_pos : forall succ sigma lo hi mu, 0 < sigma -> (lo <= mu <= hi)%Z -> (lo < hi \/ succ = true)%Z ->
    0 < accept_mass Phi succ sigma lo hi mu.
  Proof. exact (accept_mass_pos Phi Phi_incr). Qed.

  (** *** BoundedNormal: conditional normal density on the bounds; Hastings factor = ratio of acceptance masses *)
  Theorem C02_bounded_normal : forall lo hi std mu x, 0 < std -> lo <= x <= hi ->
    bn_logpdf1 (massC Phi) l2p lo hi std mu x = Some ((@lnphi R _ l2p ((x - mu) / std) - ln std) - ln (acc Phi lo hi std mu)).
  Proof. exact (bn_reported Phi l2p). Qed.
  Theorem C02_bounded_normal_support : forall lo hi std mu x, 0 < std -> (x < lo \/ hi < x) ->
    bn_logpdf1 (massC Phi) l2p lo hi std mu x = None.
  Proof. exact (bn_support Phi l2p). Qed.
  Theorem C02_bounded_normal_hastings : forall lo hi std x x', 0 < std -> lo <= x <= hi -> lo <= x' <= hi ->
    exists fwd rev, bn_logpdf1 (massC Phi) l2p lo hi std x x' = Some fwd /\ bn_logpdf1 (massC Phi) l2p lo hi std x' x = Some rev
      /\ rev - fwd = ln (acc Phi lo hi std x) - ln (acc Phi lo hi std x').
  Proof. exact (bn_hastings Phi l2p). Qed.

  (** *** symmetric families *)
  Theorem C02_normal_symmetric : forall std x x', n_logpdf1 l2p std x x' = n_logpdf1 l2p std x' x.
  Proof. exact (n_symmetric l2p). Qed.
  Theorem C02_angular_symmetric : forall std x y,
    ang_logpdf1 (massC Phi) l2p PI pymodR std x y = ang_logpdf1 (massC Phi) l2p PI pymodR std y x.
  Proof. exact (ang_symmetric Phi l2p). Qed.
  Theorem C02_angular_jump_distance : forall x z, 0 < PI -> -1 < z < 1 ->
    ang_shift PI pymodR (ang_jump1 PI pymodR x z) x - 1 = z.
  Proof. exact ang_jump_distance. Qed.
  Theorem C02_eigenvector_symmetric : forall s dx, eig_logpdf l2p s (- dx) = eig_logpdf l2p s dx.
  Proof. exact (eig_even l2p). Qed.
  Theorem C02_eigenvector_reverse : forall (x v : list R) (dx : R), length v = length x ->
    @eig_jump R _ (@eig_jump R _ x v dx) v (- dx) = x.
  Proof. exact eig_jump_reverse. Qed.
  Theorem C02_bounded_eigenvector_hastings : forall s width mu xi, 0 < s -> 0 <= mu <= width -> 0 <= xi <= width ->
    exists fwd rev, beig_logpdf (massC Phi) l2p s mu xi width = Some fwd /\ beig_logpdf (massC Phi) l2p s xi mu width = Some rev
      /\ rev - fwd = ln (acc1 Phi s width mu) - ln (acc1 Phi s width xi).
  Proof. exact (beig_hastings Phi l2p). Qed.
  Theorem C02_solid_angle_symmetric : forall kappa norm (x g : R * R),
    vmf_logpdf sin cos kappa norm x g = vmf_logpdf sin cos kappa norm g x.
  Proof. exact vmf_symmetric. Qed.
End C02.
Print Assumptions C02_cell_floorceil.
Print Assumptions C02_cell_round.
Print Assumptions C02_normal_discrete.
Print Assumptions C02_normal_discrete_symmetric.
Print Assumptions C02_bounded_discrete.
Print Assumptions C02_bounded_discrete_cells_tile.
Print Assumptions C02_bounded_discrete_accept_pos.
Print Assumptions C02_bounded_normal.
Print Assumptions C02_bounded_normal_support.
Print Assumptions C02_bounded_normal_hastings.
Print Assumptions C02_normal_symmetric.
Print Assumptions C02_angular_symmetric.
Print Assumptions C02_angular_jump_distance.
Print Assumptions C02_eigenvector_symmetric.
Print Assumptions C02_eigenvector_reverse.
Print Assumptions C02_bounded_eigenvector_hastings.
Print Assumptions C02_solid_angle_symmetric.

(** the polar angle of a solid-angle jump is drawn through the exact inverse of the von
    Mises-Fisher polar cdf, and the frame is turned by a rotation (orthogonal, pole to the point) *)
Theorem C02_vmf_inverse_cdf : forall k u : R, 0 < k -> 0 <= u <= 1 ->
  vmf_cdf k (vmf_theta PI acos k (vmf_norm PI k (sinh k)) u) = u.
Proof. exact vmf_inverse_cdf. Qed.
Print Assumptions C02_vmf_inverse_cdf.
Theorem C02_rotation : forall beta gamma (a b : R * R * R),
  @matvec R _ (rot beta gamma) (0, 0, 1) = (sin beta * cos gamma, sin beta * sin gamma, cos beta)
  /\ @dot3 R _ (@matvec R _ (rot beta gamma) a) (@matvec R _ (rot beta gamma) b) = @dot3 R _ a b.
Proof. intros. split; [apply rot_pole|apply rot_orthogonal]. Qed.
Print Assumptions C02_rotation.

(** history independence: with one cdf dictionary per parameter every query sequence returns the
    uncached values; with the single shared dictionary of the code as it was, it does not *)
Theorem C02_history_independent :
  forall (K V Sd : Type) (keqb : K -> K -> bool) (seqb : Sd -> Sd -> bool),
  (forall a b, keqb a b = true -> a = b) -> (forall a b, seqb a b = true -> a = b) ->
  forall (F : Sd -> K -> V) (qs : list (nat * Sd * K)) (cs : list (pcache K V Sd)),
  List.Forall (Inv K V Sd F) cs ->
  run_queries K V Sd keqb seqb F cs qs = map (fun '(pi, std, key) => F std key) qs.
Proof. exact all_queries_uncached. Qed.
Print Assumptions C02_history_independent.
Theorem C02_refuted_shared_cache : fst demo <> snd demo /\ fst demo = Fdemo 1 7.
Proof. exact shared_cache_depends_on_history. Qed.
Print Assumptions C02_refuted_shared_cache.
