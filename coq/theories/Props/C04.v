(** C04 — same seed and inputs give bit-identical results in any process.
    Statements only; proofs in [Wiring_proofs].  Partial by nature: the model carries the wiring
    of random streams and the ordering logic; that PCG64/numpy/scipy/BLAS and CPython themselves
    are reproducible across processes is only sampled (fresh interpreters under different
    PYTHONHASHSEED, global RNG states and construction orders). *)
From Coq Require Import ZArith List Bool.
From Epsie Require Import Base Wiring Wiring_proofs.
Import ListNotations.

(** Every random decision of chain i (acceptance on every level, temperature swaps, every
    constituent's jump, births and in-model jumps of transdimensional proposals) is drawn from the
    generator spawned from the sampler's seed with index i ... *)
Theorem C04_provenance :
  forall seed s i (x : site), (0 < chain_size s)%nat -> gen_label seed s (site_gen s i x) = Spawn seed i.
Proof. exact provenance. Qed.
Print Assumptions C04_provenance.

(** ... and different chains draw from different streams. *)
Theorem C04_streams_distinct :
  forall seed s i j (x y : site), (0 < chain_size s)%nat -> i <> j ->
  gen_label seed s (site_gen s i x) <> gen_label seed s (site_gen s j y) /\ site_gen s i x <> site_gen s j y.
Proof. exact streams_distinct. Qed.
Print Assumptions C04_streams_distinct.

(** What a chain computes is a function of the cells it is wired to (its seeded generator, its
    proposal copies, its start) and of nothing else in the process: two heaps that agree on the
    chain's footprint - whatever else differs (ambient global generators, unrelated objects built
    before, other samplers) - give the same output. *)
Theorem C04_env_independent :
  forall (progs : list (list prim)) (fps : list (list loc)),
  (forall i l, In l (locs (nth i progs [])) -> In l (nth i fps [])) ->
  (forall i j l, i <> j -> In l (nth i fps []) -> ~ In l (nth j fps [])) ->
  forall (order : list nat) (h0 h0' : heap) (i : nat),
  NoDup order -> In i order -> agree (nth i fps []) h0 h0' ->
  out_of i (snd (run_serial progs order h0 [])) = out_of i (snd (run_serial progs order h0' [])).
Proof. exact neighbours_irrelevant. Qed.
Print Assumptions C04_env_independent.

(** The default proposal covers exactly the parameters without a proposal, in the order of the
    sampler's parameter tuple: a function of the *set* of covered parameters, not of any
    enumeration order of a set (which depends on the process's string-hash seed). *)
Theorem C04_default_params_spec :
  forall params given p, In p (missing params given) <-> In p params /\ ~ In p given.
Proof. exact missing_spec. Qed.
Print Assumptions C04_default_params_spec.

Theorem C04_default_params_order_free :
  forall params given given', (forall p, In p given <-> In p given') -> missing params given = missing params given'.
Proof. exact missing_order_free. Qed.
Print Assumptions C04_default_params_order_free.

Theorem C04_default_params_in_sampler_order :
  forall params given, exists keep, missing params given = filter keep params.
Proof. exact missing_sorted_as_params. Qed.
Print Assumptions C04_default_params_in_sampler_order.
