(** C09 — swaps exchange whole states, hot to cold, on schedule, fully recorded. Statements only. *)
From Coq Require Import ZArith Lia Permutation.
From Epsie Require Import Base Machine Machine_proofs Sweep_proofs PT_proofs MachineExamples.

(** Schedule: stepping a parallel-tempered chain sweeps iff it has more than one level and the
    iteration just reached is a multiple of the swap interval; a sweep appends one row
    (swap index, acceptance ratios), written at row [(len-1) / swap_interval]. *)
Theorem C09_schedule :
  forall (V : Type) (isneginf : V -> bool) (vzero : V) (p : ptchain V) ins sw (p' : ptchain V),
    pt_step V isneginf vzero p ins sw = Good p' ->
    exists ls, step_levels V isneginf vzero (levels V p) ins = Good ls /\
    let p1 := {| levels := ls; si := si V p; tS := tS V p; tA := tA V p; sweeps := sweeps V p |} in
    if (1 <? length ls) && (pt_iter V p1 mod si V p =? 0)
    then sweeps V p' = sweeps V p ++ [(pt_iter V p1, sweep_index V p1 sw, rev (map fst sw))]
         /\ tS V p' = sc_set (tS V p) ((pt_iter V p1 - lastclear V (lvl0 V p1) - 1) / si V p) (sweep_index V p1 sw)
         /\ tA V p' = sc_set (tA V p) ((pt_iter V p1 - lastclear V (lvl0 V p1) - 1) / si V p) (rev (map fst sw))
    else sweeps V p' = sweeps V p /\ tS V p' = tS V p /\ tA V p' = tA V p /\ levels V p' = ls.
Proof. exact sweep_schedule. Qed.
Print Assumptions C09_schedule.

(** Whole states move along the index array: after the sweep level t holds the position,
    log-likelihood, log-prior, blob and active set that level swap_index[t] held before;
    its acceptance record, model-call log and iteration count are untouched. *)
Theorem C09_permutes :
  forall (V : Type) (vzero : V) (p : ptchain V) sw t,
    PTInv V vzero p -> 0 < pt_iter V p - lastclear V (lvl0 V p) -> t < ntemps V p ->
    let idx := sweep_index V p sw in
    let src := nth (nth t idx 0) (levels V p) (new_chain V) in
    let old := nth t (levels V p) (new_chain V) in
    let new := nth t (levels V (swap_temperatures V vzero p sw)) (new_chain V) in
    nth t idx 0 < ntemps V p
    /\ cur_pos V new = cur_pos V src /\ cur_stats V new = cur_stats V src
    /\ (hasblobs V old = true -> hasblobs V src = true -> cur_blob V new = cur_blob V src)
    /\ active V new = active V src
    /\ h_acc V (lastrow V vzero new) = h_acc V (lastrow V vzero old)
    /\ cA V new = cA V old /\ calls V new = calls V old /\ iter V new = iter V old.
Proof. exact swap_permutes. Qed.
Print Assumptions C09_permutes.

(** Shape of swap_index: the code's index array is the composition of adjacent exchanges made
    from the hottest pair down, it is a permutation of the levels, and a colder state moves
    up at most one level (swap_index[t] >= t - 1). *)
Theorem C09_adjacent_exchanges :
  forall tk idx ds, sweep_idx tk idx ds = sweep_spec tk idx ds.
Proof. exact sweep_idx_spec. Qed.
Print Assumptions C09_adjacent_exchanges.

Theorem C09_permutation :
  forall n ds, 0 < n -> Permutation (sweep_idx (n - 1) (seq 0 n) ds) (seq 0 n).
Proof. exact sweep_idx_perm. Qed.
Print Assumptions C09_permutation.

Theorem C09_up_at_most_one :
  forall n ds t, 0 < n -> t < n -> t <= S (nth t (sweep_idx (n - 1) (seq 0 n) ds) 0).
Proof. exact sweep_idx_bound. Qed.
Print Assumptions C09_up_at_most_one.

(** The sweep preserves the history invariant of every level (so C08 holds across swaps). *)
Theorem C09_sweep_preserves_invariant :
  forall (V : Type) (vzero : V) (p : ptchain V) sw,
    PTInv V vzero p -> 0 < pt_iter V p - lastclear V (lvl0 V p) ->
    PTInv V vzero (swap_temperatures V vzero p sw)
    /\ pt_iter V (swap_temperatures V vzero p sw) = pt_iter V p
    /\ lastclear V (lvl0 V (swap_temperatures V vzero p sw)) = lastclear V (lvl0 V p).
Proof. exact swap_inv. Qed.
Print Assumptions C09_sweep_preserves_invariant.

(** Rows of the swap history. The full statement "the visible swap history holds exactly one
    row per sweep since the last clear" is FALSE of the code as it is (open finding
    swap_rows_by_count): rows are stored at [(len-1)/si] but the view shows [len/si] rows. *)
Theorem C09_rows_refuted :
  exists p, ex_final = Good p /\ length (sweeps_since_clear p) = 1 /\ temperature_swaps nat p = []
            /\ temperature_acceptance nat p = [].
Proof. unfold ex_final. eexists. split; [vm_compute; reflexivity|]. repeat split; reflexivity. Qed.
Print Assumptions C09_rows_refuted.

(** Non-vacuity of [C09_permutes] and the row bookkeeping when the clear is at a multiple:
    the first sweep of the example (iteration 3, no clear before) is visible with its row. *)
Example C09_example :
  exists p, xexecs (new_pt nat 3 3) (firstn 2 ex_ops) = Good p
            /\ temperature_swaps nat p = [Some [0; 2; 1]] /\ temperature_acceptance nat p = [Some [8; 7]]
            /\ map (cur_pos nat) (levels nat p) = [Some [14]; Some [24]; Some [34]].
Proof. eexists. split; [vm_compute; reflexivity|]. repeat split; reflexivity. Qed.
