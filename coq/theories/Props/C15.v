(** C15 — a slow parameter moves only every jump_interval-th step, then every step. Statements only. *)
From Coq Require Import ZArith Bool Lia.
From Epsie Require Import Base Clock Clock_proofs.

(** Schedule of a proposal with jump interval k > 1 and duration D (constructed with its chain):
    while fewer than D proposal steps have elapsed it proposes exactly on iterations
    1, k+1, 2k+1, ...; afterwards on every iteration. *)
Theorem C15_schedule_slow :
  forall k D i, 1 < k -> 1 <= i -> (Z.of_nat ((i - 1) / k) < D)%Z ->
    (call_jump (fresh k D i) = true <-> exists j, i = j * k + 1).
Proof. exact schedule_slow_phase. Qed.
Print Assumptions C15_schedule_slow.

Theorem C15_schedule_fast :
  forall k D i, (D <= Z.of_nat ((i - 1) / k))%Z -> call_jump (fresh k D i) = true.
Proof. exact schedule_fast_phase. Qed.
Print Assumptions C15_schedule_fast.

(** adaptive proposals measure the duration from their start step *)
Theorem C15_schedule_adaptive :
  forall k D s n, 1 < k ->
    (call_jump {| pk := k; pD := D; pstart := Some s; pn := n |} = true
     <-> (D <= Z.of_nat (n / k) - s + 1)%Z \/ n mod k = 0).
Proof. exact schedule_adaptive. Qed.
Print Assumptions C15_schedule_adaptive.

(** On the other iterations: the proposed point keeps its parameters at the current values ... *)
Theorem C15_copy :
  forall (V A : Type) (cur : list V) (cs : list (constituent A)) os acc j d,
    (forall c, In c cs -> In j (params A c) -> call_jump (clock A c) = false) ->
    nth j (joint_jump V A cur cs os acc) d = nth j acc d.
Proof. exact copy_unless_jump. Qed.
Print Assumptions C15_copy.

(** ... it contributes nothing to the acceptance probability and is not adapted (the clock ticks). *)
Theorem C15_quiet :
  forall (V A : Type) (c : constituent A) (o : coracle V A),
    call_jump (clock A c) = false ->
    contrib V A c o = None /\ adapt A (update1 V A c o) = adapt A c
    /\ pn (clock A (update1 V A c o)) = S (pn (clock A c)).
Proof. exact quiet_iteration. Qed.
Print Assumptions C15_quiet.

(** Other proposals of the chain are unaffected; every clock advances by one per iteration,
    whatever was jumped, accepted or adapted (so clear(), which does not touch proposals, and a
    resume that restores [_nsteps], keep the schedule). *)
Theorem C15_others_unaffected :
  forall (V A : Type) cs1 cs2 os1 os2 (c : constituent A) (o : coracle V A),
    length os1 = length cs1 ->
    nth (length cs1) (joint_update V A (cs1 ++ c :: cs2) (os1 ++ o :: os2)) c = update1 V A c o.
Proof. exact constituents_independent. Qed.
Print Assumptions C15_others_unaffected.

Theorem C15_clock_after_any_history :
  forall (V A : Type) (cs : list (constituent A)) (oss : list (list (coracle V A))),
    Forall (fun os => length os = length cs) oss ->
    map (fun c => pn (clock A c)) (iterate V A cs oss) = map (fun c => pn (clock A c) + length oss) cs.
Proof. exact clock_after. Qed.
Print Assumptions C15_clock_after_any_history.

(** Non-vacuity: k = 3, D = 2: iterations 1, 4 jump; 2, 3, 5, 6 do not; from 7 on every iteration. *)
Example C15_example :
  map (fun i => call_jump (fresh 3 2 i)) [1; 2; 3; 4; 5; 6; 7; 8; 9]
  = [true; false; false; true; false; false; true; true; true].
Proof. reflexivity. Qed.
