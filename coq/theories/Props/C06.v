(** C06 — splitting a run or clearing memory never changes the trajectory.
    Statements only; proofs in [Machine_proofs], [PT_proofs]. *)
From Coq Require Import ZArith Lia.
From Epsie Require Import Base Machine Machine_proofs Sweep_proofs PT_proofs MachineExamples.

(** Any schedule of [run]s (of any lengths, 0 included) and [clear]s makes exactly the
    records, model calls, iteration count, proposed point and active set that ONE
    uninterrupted run over the concatenated step inputs makes — for every level, every
    input stream, every ladder size and swap interval. ([PTgeq] = equal ghost state:
    full history [hist], [calls], [iter], [proposed], [active], swap history [sweeps].) *)
Theorem C06_schedule_independent :
  forall (V : Type) (isneginf isnan : V -> bool) (vzero : V) (comps : list (list nat))
         (ops : list (op V)) (p p' : ptchain V),
    PTInv V vzero p -> Forall (run_or_clear V) ops ->
    execs V isneginf isnan vzero comps p ops = Good p' ->
    exists q', run_steps V isneginf vzero p (all_steps V ops) = Good q'
               /\ PTgeq V p' q' /\ PTInv V vzero p' /\ PTInv V vzero q'.
Proof. intros. eapply schedule_independent; eauto. apply PTgeq_refl. Qed.
Print Assumptions C06_schedule_independent.

(** The mechanism: every read of the retained history that the code makes
    (current position / stats / blob = [positions[-1]] or the start triple) returns the
    last record ever made, independently of [lastclear] and of the scratch layout ... *)
Theorem C06_reads_are_last_record :
  forall (V : Type) (vzero : V) (c : chain V),
    Hist V vzero c -> 0 < iter V c ->
    cur_pos V c = Some (h_pos V (lastrow V vzero c)) /\ cur_stats V c = Some (h_stats V (lastrow V vzero c))
    /\ (hasblobs V c = true -> cur_blob V c = Some (h_blob V (lastrow V vzero c))).
Proof. exact cur_of_hist. Qed.
Print Assumptions C06_reads_are_last_record.

(** ... so [clear] and scratch growth change nothing a later step reads. *)
Theorem C06_clear_invisible :
  forall (V : Type) (vzero : V) (c : chain V),
    Hist V vzero c ->
    cur_pos V (clear V c) = cur_pos V c /\ cur_stats V (clear V c) = cur_stats V c
    /\ cur_blob V (clear V c) = cur_blob V c.
Proof. exact clear_cur. Qed.
Print Assumptions C06_clear_invisible.

Theorem C06_growth_invisible :
  forall (V : Type) (vzero : V) (c : chain V) (n : nat),
    Hist V vzero c ->
    cur_pos V (set_scratchlen V c n) = cur_pos V c /\ cur_stats V (set_scratchlen V c n) = cur_stats V c
    /\ cur_blob V (set_scratchlen V c n) = cur_blob V c.
Proof. exact set_scratchlen_cur. Qed.
Print Assumptions C06_growth_invisible.

(** the invariant holds after the start positions are set, hence (previous theorem) always *)
Theorem C06_start_establishes_invariant :
  forall (V : Type) (isneginf isnan : V -> bool) (vzero : V) (comps : list (list nat))
         (n swi : nat) ss (p : ptchain V),
    0 < n -> exec V isneginf isnan vzero comps (new_pt V n swi) (OStart V ss) = Good p -> PTInv V vzero p.
Proof. exact start_inv. Qed.
Print Assumptions C06_start_establishes_invariant.

(** Non-vacuity: a concrete 3-level schedule with a clear at a non-multiple of the swap interval runs. *)
Example C06_example : exists p, ex_final = Good p /\ pt_iter nat p = 6 /\ lastclear nat (lvl0 nat p) = 4.
Proof. unfold ex_final. eexists. split; [vm_compute; reflexivity|]. split; reflexivity. Qed.

(** What is NOT schedule-independent in the code as it is (open finding, swap_rows_by_count):
    the *view* of the swap history. After a clear at a non-multiple of the swap interval the
    newest row is hidden: one sweep happened since the clear, zero rows are visible. *)
Theorem C06_swap_view_refuted :
  exists p, ex_final = Good p /\ length (sweeps_since_clear p) = 1 /\ temperature_swaps nat p = [].
Proof. unfold ex_final. eexists. split; [vm_compute; reflexivity|]. split; reflexivity. Qed.
Print Assumptions C06_swap_view_refuted.

(** With a dynamically annealed ladder: the annealer runs at the end of every sweep on the acceptance
    ratios that sweep just wrote, so the ladder is a function of the sweeps made - and therefore the
    same after any schedule of runs and clears as after the uninterrupted run. *)
From Epsie Require Import Num Ladder Anneal_machine Anneal_machine_proofs.
Theorem C06_annealed_ladder_schedule_independent :
  forall {T : Type} `{Num T} (isneginf isnan : T -> bool) (vzero : T) (comps : list (list nat))
         (nu tau : T) (st0 : @lstate T) (ops : list (op T)) (p p' : ptchain T),
    PTInv T vzero p -> Forall (run_or_clear T) ops ->
    execs T isneginf isnan vzero comps p ops = Good p' ->
    exists q', run_steps T isneginf vzero p (all_steps T ops) = Good q'
               /\ ladder_of nu tau st0 p' = ladder_of nu tau st0 q'.
Proof. intros. eapply ladder_schedule_independent; eauto. Qed.
Print Assumptions C06_annealed_ladder_schedule_independent.
