(** C13, source tie: the window test of every [_update] as written in /repo today equals the
    model's, for every clock state and configuration; the translator additionally refuses any
    [_update] that does something outside its guarded block (so "outside the window the update
    is the identity" is read off the source's structure, not assumed).
    Statements only; proofs in [SrcTie_window]. *)
From Coq Require Import ZArith Bool.
From Epsie Require Import Base Num Adapt AdaptM Gen.Src SrcTie_window.
Local Open Scope Z_scope.

Theorem C13_src_veitch_window :
  forall (T : Type) (N : Num T) (p : @veitch T) k n,
  src_veitch_window (v_T p) k n (v_start p) = veitch_window p (src_nsteps k n).
Proof. intros. apply src_veitch_window_tie. Qed.
Print Assumptions C13_src_veitch_window.

Theorem C13_src_andrieu_thoms_window :
  forall (T : Type) (N : Num T) k n,
  (forall p : @at_state T, src_at_window (a_T p) k n (a_start p) = at_window p (src_nsteps k n))
  /\ (forall p : @atf_state T, src_at_window (f_T p) k n (f_start p) = atf_window p (src_nsteps k n))
  /\ (forall p : @atc_state T, src_at_window (c_T p) k n (c_start p) = atc_window p (src_nsteps k n))
  /\ (forall p : @atcf_state T, src_at_window (g_T p) k n (g_start p) = atcf_window p (src_nsteps k n)).
Proof.
  intros T N k n. split; [|split; [|split]]; intros p.
  - apply src_at_window_tie.
  - apply src_atf_window_tie.
  - apply src_atc_window_tie.
  - apply src_atcf_window_tie.
Qed.
Print Assumptions C13_src_andrieu_thoms_window.

Theorem C13_src_eigenvector_solid_angle_window :
  forall (T : Type) (N : Num T) (p : @rm_state T) k n,
  src_eig_window (r_T p) k n (r_start p) = rm_window p (src_nsteps k n)
  /\ src_kappa_window (r_T p) k n (r_start p) = rm_window p (src_nsteps k n).
Proof. intros. split; [apply src_eig_window_tie|apply src_kappa_window_tie]. Qed.
Print Assumptions C13_src_eigenvector_solid_angle_window.

(** ** the scalar arithmetic inside the windows (proofs in [SrcTie_adapt]) *)
From Coq Require Import Reals List.
From Epsie Require Import NumR Gen.SrcAdapt SrcTie_adapt.
Local Open Scope R_scope.

(** sign and size of the step of every log-scale, with the decaying gain dk^(-0.6) - T^(-0.6) inlined from the source: global
    Andrieu-Thoms (diagonal and full), each component of the componentwise variants, the eigenvector scale, the solid-angle
    concentration (whose sign is the opposite: kappa is an inverse width) *)
Theorem C13_src_log_steps :
  (forall (p : @at_state R) nsteps ar x, at_window p nsteps = true ->
     a_loglam (at_update p nsteps ar x) = src_at_log (a_loglam p) (IZR (dkZ nsteps (a_start p))) ar (a_decayc p) (a_target p))
  /\ (forall (p : @atf_state R) nsteps ar x, atf_window p nsteps = true ->
     f_loglam (atf_update p nsteps ar x) = src_at_log (f_loglam p) (IZR (dkZ nsteps (f_start p))) ar (f_decayc p) (f_target p))
  /\ (forall (p : @atc_state R) nsteps ars x i, atc_window p nsteps = true ->
     (i < length (c_loglam p))%nat -> (i < length ars)%nat ->
     nth i (c_loglam (atc_update p nsteps ars x)) 0
     = nth i (c_loglam p) 0 + src_cw_dlog (rm_factor (dkZ nsteps (c_start p)) (c_decayc p)) (nth i ars 0) (c_target p))
  /\ (forall (p : @atcf_state R) nsteps ars x i, atcf_window p nsteps = true ->
     (i < length (g_loglam p))%nat -> (i < length ars)%nat ->
     nth i (g_loglam (atcf_update p nsteps ars x)) 0
     = nth i (g_loglam p) 0 + src_cw_dlog (rm_factor (dkZ nsteps (g_start p)) (g_decayc p)) (nth i ars 0) (g_target p))
  /\ (forall (p : @rm_state R) nsteps ar, rm_window p nsteps = true ->
     r_log (eig_update p nsteps ar) = src_eig_log (r_log p) (IZR (dkZ nsteps (r_start p))) ar (r_decayc p) (r_target p))
  /\ (forall (p : @rm_state R) nsteps ar, rm_window p nsteps = true ->
     r_log (kappa_update p nsteps ar) = src_kappa_log (r_log p) (IZR (dkZ nsteps (r_start p))) ar (r_decayc p) (r_target p)).
Proof.
  exact (conj src_at_log_tie (conj src_atf_log_tie (conj src_cw_log_tie (conj src_cwf_log_tie (conj src_eig_log_tie src_kappa_log_tie))))).
Qed.
Print Assumptions C13_src_log_steps.

(** the Veitch update of a width: old width + alpha * (dk^(-decay) - 0.1) * delta / 10 with alpha chosen by the outcome of the
    last step, kept when that would be negative *)
Theorem C13_src_veitch_step :
  forall (p : @veitch R) nsteps (accepted : bool) (s delta : R),
  veitch_new_std (if accepted then 1 - v_target p else - v_target p) (veitch_factor p nsteps) s delta
  = (let n := s + src_veitch_inc (IZR (dkZ nsteps (v_start p))) accepted (v_decay p) delta (v_target p) in if Rltb n 0 then s else n).
Proof. exact src_veitch_step_tie. Qed.
Print Assumptions C13_src_veitch_step.

(** Sivia-Skilling, diagonal branch: the factor, the exponent and the cap test as written in /repo today give the model's
    [ss_update], and the factor moves with the cumulative acceptance rate relative to the target *)
From Coq Require Import Reals List.
From Epsie Require Import NumR SrcTie_ss.
Theorem C13_src_ss_update :
  forall (p : @ss R) (nsteps : Z) (acc : bool),
  let nacc := (s_nacc p + (if acc then 1 else 0))%Z in
  let a0 := src_ss_alpha (IZR nacc) (IZR nsteps) (IZR (s_start p)) (s_target p) in
  (0 < a0)%R ->
  s_std (ss_update p nsteps acc)
  = (if match s_cap p with None => true | Some cap => src_ss_diag_applies a0 (Adapt.list_max (s_std p)) cap end
     then map (fun s => (s * src_ss_diag_factor a0)%R) (s_std p) else s_std p)
  /\ s_nacc (ss_update p nsteps acc) = nacc.
Proof. exact src_ss_update_tie. Qed.
Print Assumptions C13_src_ss_update.

Theorem C13_src_ss_direction :
  forall (nacc nsteps start : Z) (target : R),
  let niter := (nsteps - (start - 1) + 1)%Z in
  (0 <= nacc <= niter)%Z -> (0 < niter)%Z -> (0 < target < 1)%R ->
  let a0 := src_ss_alpha (IZR nacc) (IZR nsteps) (IZR start) target in
  ((target < IZR nacc / IZR niter -> 1 < a0) /\ (IZR nacc / IZR niter < target -> 0 < a0 < 1) /\ 0 < a0)%R.
Proof. exact src_ss_alpha_direction. Qed.
Print Assumptions C13_src_ss_direction.
