(** C13, source tie: the window test of every [_update] as written in /repo today equals the
    model's, for every clock state and configuration; the translator additionally refuses any
    [_update] that does something outside its guarded block (so "outside the window the update
    is the identity" is read off the source's structure, not assumed).
    Statements only; proofs in [SrcTie_window]. *)
From Coq Require Import ZArith Bool.
From Epsie Require Import Base Num Adapt AdaptM Gen.Src SrcTie_window.
Local Open Scope Z_scope.

Theorem C13_src_veitch_window :
  forall (T : Type) (N : Num T) (p : @veitch T) k n,
  src_veitch_window (v_T p) k n (v_start p) = veitch_window p (src_nsteps k n).
Proof. intros. apply src_veitch_window_tie. Qed.
Print Assumptions C13_src_veitch_window.

Theorem C13_src_andrieu_thoms_window :
  forall (T : Type) (N : Num T) k n,
  (forall p : @at_state T, src_at_window (a_T p) k n (a_start p) = at_window p (src_nsteps k n))
  /\ (forall p : @atf_state T, src_at_window (f_T p) k n (f_start p) = atf_window p (src_nsteps k n))
  /\ (forall p : @atc_state T, src_at_window (c_T p) k n (c_start p) = atc_window p (src_nsteps k n))
  /\ (forall p : @atcf_state T, src_at_window (g_T p) k n (g_start p) = atcf_window p (src_nsteps k n)).
Proof.
  intros T N k n. split; [|split; [|split]]; intros p.
  - apply src_at_window_tie.
  - apply src_atf_window_tie.
  - apply src_atc_window_tie.
  - apply src_atcf_window_tie.
Qed.
Print Assumptions C13_src_andrieu_thoms_window.

Theorem C13_src_eigenvector_solid_angle_window :
  forall (T : Type) (N : Num T) (p : @rm_state T) k n,
  src_eig_window (r_T p) k n (r_start p) = rm_window p (src_nsteps k n)
  /\ src_kappa_window (r_T p) k n (r_start p) = rm_window p (src_nsteps k n).
Proof. intros. split; [apply src_eig_window_tie|apply src_kappa_window_tie]. Qed.
Print Assumptions C13_src_eigenvector_solid_angle_window.
