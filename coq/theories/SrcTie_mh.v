(** The scalar float kernels as written in /repo today ([Gen/SrcNum.v], regenerated on every run by
    tools/py2coq_num.py) equal the hand-written kernels of the model over the reals, for all
    inputs: the Metropolis-Hastings log-ratio and decision, the forced reject of [Chain.step], and
    the per-pair exchange kernel of [swap_temperatures].  (The float instance of the hand-written
    kernels is what the correspondence runs against the implementation; this file ties the
    theorems' instance to the source text.) *)
From Coq Require Import Reals Lra Bool List.
From Epsie Require Import Base Num NumR MH SrcSupport Gen.SrcNum.
Local Open Scope R_scope.

Definition of_mh (r : @mh_result R) : sres R :=
  match r with Decided a ar d => SRet a ar d | NaNAcceptance => SRaise end.

(** case analysis on every comparison in the goal, then real arithmetic *)
Ltac rcases :=
  repeat match goal with
         | |- context [Rltb ?a ?b] => let H := fresh in destruct (Rltb a b) eqn:H;
                                       [apply Rltb_true in H|apply Rltb_false in H]
         | |- context [Rleb ?a ?b] => let H := fresh in destruct (Rleb a b) eqn:H;
                                       [apply Rleb_true in H|apply Rleb_false in H]
         end.
Ltac rfin := try reflexivity; try (exfalso; lra); try (f_equal; lra).

Lemma src_mh_logar_tie (beta qrev qfwd logp logl clogp clogl : R) (symmetric : bool) :
  src_mh_logar beta symmetric qrev qfwd logp logl clogp clogl
  = mh_logar logp logl clogp clogl beta (if symmetric then None else Some (qrev, qfwd)).
Proof. unfold src_mh_logar, mh_logar. destruct symmetric; cbn; ring. Qed.

Lemma src_mh_decide_tie (logar u : R) : src_mh_decide logar u = of_mh (mh_decide logar u).
Proof.
  unfold src_mh_decide, mh_decide, of_mh. cbn [nltb nleb nexp nisnan nzero none nofZ NumReal negb]. cbv zeta.
  rcases; rfin.
Qed.

Lemma src_step_decide_tie (logp logl clogp clogl beta u : R) (h : option (R * R)) :
  src_step_decide logp (of_mh (mh_decide (mh_logar logp logl clogp clogl beta h) u))
  = of_mh (mh_step logp logl clogp clogl beta h u).
Proof. unfold src_step_decide, mh_step. cbn [nisneginf NumReal]. reflexivity. Qed.

