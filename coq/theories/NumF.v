(** Execution instance: primitive binary64 floats with the elementary functions of [FloatLib]. *)
From Coq Require Import ZArith PrimFloat.
From Epsie Require Import Num FloatLib.

#[export] Instance NumFloat : Num float := {|
  nzero := fzero; none := fone;
  nadd := PrimFloat.add; nsub := PrimFloat.sub; nmul := PrimFloat.mul; ndiv := PrimFloat.div; nopp := PrimFloat.opp;
  nexp := fexp; nln := fln; nsqrt := PrimFloat.sqrt;
  nltb := PrimFloat.ltb; nleb := PrimFloat.leb; neqb := PrimFloat.eqb;
  nisnan := is_nanb; nisneginf := fun x => PrimFloat.eqb x fninf;
  nofZ := float_of_Z
|}.

(** comparison used by the correspondence: relative 1e-9 / absolute 1e-12, NaN = NaN, infinities exact *)
Definition fclose (a b : float) : bool :=
  if is_nanb a then is_nanb b
  else if is_nanb b then false
  else if PrimFloat.eqb a b then true
  else
    let d := PrimFloat.abs (PrimFloat.sub a b) in
    let m := fmax (PrimFloat.abs a) (PrimFloat.abs b) in
    PrimFloat.leb d (PrimFloat.add 0x1.19799812dea11p-40 (PrimFloat.mul 0x1.12e0be826d695p-30 m)).
