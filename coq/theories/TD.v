(** Transdimensional positions and the jump of [NestedTransdimensional]
    (epsie/proposals/nested_transdimensional.py:_jump), value-abstract.

    A position is the list of the components' parameter values plus the model index [k]; the
    chain keeps, next to it, the active set ([_active_props]).  One jump receives from its oracle:
    the new index (the model-hopping proposal's jump), the components picked by
    [random_generator.choice(indx, size=|dk|, replace=False)], what each birth distribution
    would draw and what each in-model proposal would propose. *)
From Coq Require Import ZArith.
From Epsie Require Import Base.
Local Open Scope Z_scope.

Section TD.
  Variable V : Type.
  Variable isnan : V -> bool.
  Variable nan : V.

  Record tdpos := { vals : list (list V); kidx : Z }.

  Definition count_true (l : list bool) : nat := length (filter (fun b => b) l).
  Definition all_nan (vs : list V) : bool := forallb isnan vs.
  Definition all_finite (vs : list V) : bool := forallb (fun v => negb (isnan v)) vs.

  (** [_activate_proposals]: a component is active unless all of its parameters are NaN *)
  Definition pattern_of (x : tdpos) : list bool := map (fun vs => negb (all_nan vs)) (vals x).

  (** [proposed_state[mask] = logical_not(proposed_state[mask])] *)
  Definition flip (st : list bool) (mask : list nat) : list bool :=
    fold_left (fun s i => upd s i (negb (nth i s false))) mask st.

  Record tdin := {
    new_k : Z;                       (* model_proposal.jump({k: fromx[k]})[k] *)
    mask : list nat;                 (* components picked to be switched on/off *)
    births : list (list V);          (* per component: birth_distribution.birth *)
    jumps : list (list V)            (* per component: prop.jump(current values) *)
  }.

  Definition td_jump (x : tdpos) (a : list bool) (i : tdin) : tdpos * list bool :=
    let dk := new_k i - kidx x in
    let a' := if dk =? 0 then a else flip a (mask i) in
    let newvals :=
      map (fun '(c, (old, (was, is))) =>
             if was && is then nth c (jumps i) old                               (* in-model update *)
             else if negb was && is && (0 <? dk) then nth c (births i) old        (* birth *)
             else if was && negb is && (dk <? 0) then map (fun _ => nan) old      (* death *)
             else old)
          (combine (seq 0 (length a)) (combine (vals x) (combine a a'))) in
    ({| vals := newvals; kidx := new_k i |}, a').

  (** what [Chain.step] keeps: the proposal with its '_state' when accepted, else the current pair *)
  Definition td_step (x : tdpos) (a : list bool) (i : tdin) (accept : bool) : tdpos * list bool :=
    if accept then td_jump x a i else (x, a).
End TD.
