(** The Metropolis-Hastings acceptance kernel of [Chain._acceptance_ratio] / [Chain.step]
    (epsie/chain/chain.py:502-571) and [JointProposal._logpdf] (joint.py:66-68), written once
    over the numeric signature. *)
From Coq Require Import List.
From Epsie Require Import Num.
Import ListNotations.
Local Open Scope num_scope.

Section MH.
  Context {T : Type} `{Num T}.

  (** [JointProposal._logpdf]: python's sum() over the non-symmetric constituents; a constituent
      that is not jumping on this iteration contributes the float 0.0 *)
  Definition joint_logq (contribs : list (option T)) : T :=
    nsum (map (fun c => match c with Some l => l | None => nzero end) contribs).

  (** logar = logp + logl*beta - current_logp - current_logl*beta  (+ logq(x|x') - logq(x'|x) if not symmetric) *)
  Definition mh_logar (logp logl clogp clogl beta : T) (hastings : option (T * T)) : T :=
    let base := ((logp + logl * beta) - clogp) - clogl * beta in
    match hastings with
    | None => base
    | Some (lrev, lfwd) => base + (lrev - lfwd)
    end.

  Inductive mh_result :=
  | Decided (accept : bool) (ar : T) (used_uniform : bool)
  | NaNAcceptance.                                     (* ValueError('NaN acceptance!') *)

  Definition mh_decide (logar u : T) : mh_result :=
    if nltb nzero logar then Decided true none false   (* logar > 0: ar = 1, no uniform drawn *)
    else let ar := nexp logar in
         if nisnan ar then NaNAcceptance
         else Decided (nleb u ar) ar true.             (* accept = u <= ar *)

  (** [Chain.step]: a proposal of zero prior probability is rejected without consulting anything *)
  Definition mh_step (logp logl clogp clogl beta : T) (hastings : option (T * T)) (u : T) : mh_result :=
    if nisneginf logp then Decided false nzero false
    else mh_decide (mh_logar logp logl clogp clogl beta hastings) u.
End MH.
