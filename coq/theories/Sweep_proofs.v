(** The index array built by [swap_temperatures] ([Machine.sweep_idx]):
    it is the composition of adjacent exchanges made from the hottest pair
    down, it is a permutation, and a colder state moves up at most one level. *)
From Coq Require Import Lia Permutation FinFun.
From Epsie Require Import Base Machine.

(** one adjacent exchange of the occupants of slots [tj] and [tj+1] *)
Definition exch (c : list nat) (tj : nat) : list nat :=
  upd (upd c (S tj) (nth tj c 0)) tj (nth (S tj) c 0).

(** specification: a fold of adjacent exchanges, hottest pair first *)
Fixpoint sweep_spec (tk : nat) (c : list nat) (ds : list bool) : list nat :=
  match tk, ds with
  | S tj, d :: ds' => sweep_spec tj (if d then exch c tj else c) ds'
  | _, _ => c
  end.

Theorem sweep_idx_spec tk idx ds : sweep_idx tk idx ds = sweep_spec tk idx ds.
Proof.
  revert idx ds; induction tk as [|tj IH]; intros idx [|d ds]; cbn; auto.
  destruct d; apply IH.
Qed.

Lemma nth_upd_any {A} (l : list A) n m v d :
  nth m (upd l n v) d = if Nat.eqb n m && Nat.ltb n (length l) then v else nth m l d.
Proof.
  destruct (Nat.eqb_spec n m) as [->|Hne]; cbn [andb].
  - destruct (Nat.ltb_spec m (length l)).
    + now apply nth_upd_eq.
    + rewrite !nth_overflow; auto. now rewrite upd_length.
  - now apply nth_upd_neq.
Qed.

Lemma exch_length c tj : length (exch c tj) = length c.
Proof. unfold exch. now rewrite !upd_length. Qed.

Lemma exch_nth c tj t : S tj < length c ->
  nth t (exch c tj) 0 = if Nat.eqb t tj then nth (S tj) c 0 else if Nat.eqb t (S tj) then nth tj c 0 else nth t c 0.
Proof.
  intros H. unfold exch. rewrite !nth_upd_any, !upd_length.
  replace (tj <? length c) with true by (symmetry; apply Nat.ltb_lt; lia).
  replace (S tj <? length c) with true by (symmetry; apply Nat.ltb_lt; lia).
  rewrite !Bool.andb_true_r.
  destruct (Nat.eqb_spec tj t), (Nat.eqb_spec t tj), (Nat.eqb_spec (S tj) t), (Nat.eqb_spec t (S tj));
    try lia; reflexivity.
Qed.

Lemma exch_perm c tj : S tj < length c -> Permutation (exch c tj) c.
Proof.
  intros H. apply Permutation_sym. apply (Permutation_nth c (exch c tj) 0). split; [now rewrite exch_length|].
  exists (fun x => if Nat.eqb x tj then S tj else if Nat.eqb x (S tj) then tj else x).
  split; [|split].
  - intros x Hx. destruct (Nat.eqb_spec x tj), (Nat.eqb_spec x (S tj)); lia.
  - intros x y Hx Hy. destruct (Nat.eqb_spec x tj), (Nat.eqb_spec x (S tj)), (Nat.eqb_spec y tj), (Nat.eqb_spec y (S tj)); lia.
  - intros x Hx. rewrite exch_nth by exact H.
    destruct (Nat.eqb_spec x tj), (Nat.eqb_spec x (S tj)); subst; auto; lia.
Qed.

Lemma sweep_spec_length tk c ds : length (sweep_spec tk c ds) = length c.
Proof.
  revert c ds; induction tk as [|tj IH]; intros c [|d ds]; cbn; auto.
  rewrite IH. destruct d; [apply exch_length|reflexivity].
Qed.

Theorem sweep_spec_perm tk c ds : tk < length c -> Permutation (sweep_spec tk c ds) c.
Proof.
  revert c ds; induction tk as [|tj IH]; intros c [|d ds] H; cbn; auto.
  destruct d.
  - rewrite IH by (rewrite exch_length; lia). apply exch_perm. exact H.
  - apply IH. lia.
Qed.

(** the loop invariant of the sweep, from which the bound follows *)
Definition SweepInv (n tk : nat) (c : list nat) : Prop :=
  length c = n /\ tk < n
  /\ (forall t, t < tk -> nth t c 0 = t)
  /\ tk <= nth tk c 0
  /\ (forall t, tk < t -> t < n -> t <= S (nth t c 0)).

Lemma sweep_spec_bound n tk c ds :
  SweepInv n tk c -> forall t, t < n -> t <= S (nth t (sweep_spec tk c ds) 0).
Proof.
  revert c ds; induction tk as [|tj IH]; intros c ds (Hl & Hk & Hlow & Hat & Hhi) t Ht.
  - destruct ds; cbn; (destruct (Nat.eq_dec t 0) as [->|]; [lia|apply Hhi; lia]).
  - destruct ds as [|d ds]; cbn.
    + destruct (Nat.lt_ge_cases t (S tj)); [rewrite Hlow by lia; lia|].
      destruct (Nat.eq_dec t (S tj)) as [->|]; [lia|apply Hhi; lia].
    + apply IH; [|exact Ht]. destruct d.
      * assert (Hx : S tj < length c) by lia.
        split; [now rewrite exch_length|]. split; [lia|]. split; [|split].
        -- intros u Hu. rewrite exch_nth by exact Hx.
           destruct (Nat.eqb_spec u tj), (Nat.eqb_spec u (S tj)); try lia. apply Hlow. lia.
        -- rewrite exch_nth by exact Hx. rewrite Nat.eqb_refl. lia.
        -- intros u Hu Hu'. rewrite exch_nth by exact Hx.
           destruct (Nat.eqb_spec u tj), (Nat.eqb_spec u (S tj)); try lia.
           ++ subst u. rewrite (Hlow tj) by lia. lia.
           ++ apply Hhi; lia.
      * split; [exact Hl|]. split; [lia|]. split; [|split].
        -- intros u Hu. apply Hlow. lia.
        -- rewrite (Hlow tj) by lia. lia.
        -- intros u Hu Hu'. destruct (Nat.eq_dec u (S tj)) as [->|]; [lia|apply Hhi; lia].
Qed.

Lemma seq_nth' n t : t < n -> nth t (seq 0 n) 0 = t.
Proof. intros H. now rewrite seq_nth. Qed.

(** a colder state moves up at most one level: swap_index[t] >= t - 1 *)
Theorem sweep_idx_bound n ds t :
  0 < n -> t < n -> t <= S (nth t (sweep_idx (n - 1) (seq 0 n) ds) 0).
Proof.
  intros Hn Ht. rewrite sweep_idx_spec. apply (sweep_spec_bound n); [|exact Ht].
  repeat split.
  - apply seq_length.
  - lia.
  - intros u Hu. apply seq_nth'. lia.
  - rewrite seq_nth' by lia. lia.
  - intros u Hu Hu'. lia.
Qed.

Theorem sweep_idx_perm n ds : 0 < n -> Permutation (sweep_idx (n - 1) (seq 0 n) ds) (seq 0 n).
Proof. intros Hn. rewrite sweep_idx_spec. apply sweep_spec_perm. rewrite seq_length. lia. Qed.

Lemma sweep_idx_length n ds : length (sweep_idx (n - 1) (seq 0 n) ds) = n.
Proof. now rewrite sweep_idx_spec, sweep_spec_length, seq_length. Qed.

Lemma sweep_idx_lt n ds t : 0 < n -> t < n -> nth t (sweep_idx (n - 1) (seq 0 n) ds) 0 < n.
Proof.
  intros Hn Ht.
  assert (In (nth t (sweep_idx (n - 1) (seq 0 n) ds) 0) (seq 0 n)).
  { eapply Permutation_in; [apply (sweep_idx_perm n ds Hn)|]. apply nth_In. now rewrite sweep_idx_length. }
  apply in_seq in H. lia.
Qed.

(** ** which levels end a sweep with another occupant (used for [reset_after_swap], C19) *)
(** decisions given as a function of the colder slot of each pair *)
Fixpoint decs (dec : nat -> bool) (tk : nat) : list bool :=
  match tk with O => [] | S tj => dec tj :: decs dec tj end.

Lemma decs_ext f g tk : (forall t, t < tk -> f t = g t) -> decs f tk = decs g tk.
Proof. induction tk as [|tj IH]; intros H; cbn; auto. rewrite H by lia. f_equal. apply IH. intros; apply H; lia. Qed.

Lemma ds_as_decs tk ds : length ds = tk -> ds = decs (fun tj => nth (tk - 1 - tj) ds false) tk.
Proof.
  revert ds; induction tk as [|tj IH]; intros [|d ds] H; cbn in H; try lia; auto.
  cbn [decs]. replace (S tj - 1 - tj) with 0 by lia. cbn [nth]. f_equal.
  rewrite (IH ds) at 1 by lia. apply decs_ext. intros t Ht.
  replace (S tj - 1 - t) with (S (tj - 1 - t)) by lia. reflexivity.
Qed.

Lemma SweepInv_step n tj c d : SweepInv n (S tj) c -> SweepInv n tj (if d : bool then exch c tj else c).
Proof.
  intros (Hl & Hk & Hlow & Hat & Hhi). destruct d.
  - assert (Hx : S tj < length c) by lia.
    split; [now rewrite exch_length|]. split; [lia|]. split; [|split].
    + intros u Hu. rewrite exch_nth by exact Hx.
      destruct (Nat.eqb_spec u tj), (Nat.eqb_spec u (S tj)); try lia. apply Hlow. lia.
    + rewrite exch_nth by exact Hx. rewrite Nat.eqb_refl. lia.
    + intros u Hu Hu'. rewrite exch_nth by exact Hx.
      destruct (Nat.eqb_spec u tj), (Nat.eqb_spec u (S tj)); try lia.
      * subst u. rewrite (Hlow tj) by lia. lia.
      * apply Hhi; lia.
  - split; [exact Hl|]. split; [lia|]. split; [|split].
    + intros u Hu. apply Hlow. lia.
    + rewrite (Hlow tj) by lia. lia.
    + intros u Hu Hu'. destruct (Nat.eq_dec u (S tj)) as [->|]; [lia|apply Hhi; lia].
Qed.

(** which slots end up with another occupant: exactly those next to an accepted exchange *)
Lemma sweep_spec_moved n dec tk c : SweepInv n tk c -> forall t, t < n ->
  (nth t (sweep_spec tk c (decs dec tk)) 0 <> t <->
   nth t c 0 <> t \/ (t < tk /\ dec t = true) \/ (0 < t /\ t <= tk /\ dec (t - 1) = true)).
Proof.
  revert c; induction tk as [|tj IH]; intros c HI t Ht.
  - cbn. split; [auto|]. intros [H|[[H _]|(H1 & H2 & _)]]; [exact H|lia|lia].
  - cbn [decs sweep_spec].
    pose proof (SweepInv_step n tj c (dec tj) HI) as HI'.
    rewrite (IH _ HI' t Ht). clear IH.
    destruct HI as (Hl & Hk & Hlow & Hat & Hhi).
    assert (Hx : S tj < length c) by lia.
    assert (E : nth t (if dec tj then exch c tj else c) 0 =
                if dec tj then (if Nat.eqb t tj then nth (S tj) c 0 else if Nat.eqb t (S tj) then nth tj c 0 else nth t c 0)
                else nth t c 0).
    { destruct (dec tj); [apply exch_nth; exact Hx|reflexivity]. }
    rewrite E. clear E.
    pose proof (Hlow tj ltac:(lia)) as Htj.
    destruct (Nat.eqb_spec t tj) as [->|N1].
    + (* t = tj *)
      destruct (dec tj) eqn:D.
      * split; intros _; [right; left; split; [lia|reflexivity]|left; lia].
      * rewrite Htj. split.
        -- intros [H|[[H _]|(H1 & H2 & H3)]]; [congruence|lia|]. right; right. repeat split; try lia. exact H3.
        -- intros [H|[[_ H]|(H1 & H2 & H3)]]; [congruence|congruence|]. right; right. repeat split; try lia. exact H3.
    + destruct (Nat.eqb_spec t (S tj)) as [->|N2].
      * (* t = S tj *)
        replace (S tj - 1) with tj by lia.
        destruct (dec tj) eqn:D.
        -- rewrite Htj. split; intros _; [right; right; repeat split; lia|left; lia].
        -- split.
           ++ intros [H|[[H _]|(H1 & H2 & _)]]; [left; exact H|lia|lia].
           ++ intros [H|[[H _]|(_ & _ & H)]]; [left; exact H|lia|congruence].
      * (* elsewhere *)
        assert (E : (if dec tj then nth t c 0 else nth t c 0) = nth t c 0) by (destruct (dec tj); reflexivity).
        rewrite E. clear E.
        split.
        -- intros [H|[[H1 H2]|(H1 & H2 & H3)]]; [left; exact H|right; left; split; [lia|exact H2]|right; right; repeat split; try lia; exact H3].
        -- intros [H|[[H1 H2]|(H1 & H2 & H3)]]; [left; exact H|right; left; split; [lia|exact H2]|right; right; repeat split; try lia; exact H3].
Qed.

Theorem sweep_idx_moved n ds t : 0 < n -> t < n -> length ds = n - 1 ->
  let idx := sweep_idx (n - 1) (seq 0 n) ds in
  let dec tj := nth (n - 2 - tj) ds false in      (* the decision taken for the pair (tj, tj+1) *)
  nth t idx 0 <> t <-> (S t < n /\ dec t = true) \/ (0 < t /\ dec (t - 1) = true).
Proof.
  intros Hn Ht Hds idx dec. unfold idx. rewrite sweep_idx_spec.
  rewrite (ds_as_decs (n - 1) ds Hds).
  assert (HI : SweepInv n (n - 1) (seq 0 n)).
  { repeat split; [apply seq_length|lia| |rewrite seq_nth' by lia; lia|intros; lia].
    intros u Hu. apply seq_nth'. lia. }
  rewrite (sweep_spec_moved n _ (n - 1) (seq 0 n) HI t Ht).
  rewrite seq_nth' by exact Ht.
  assert (Ed : forall x, nth (n - 1 - 1 - x) ds false = dec x)
    by (intros x; unfold dec; f_equal; lia).
  rewrite !Ed.
  split.
  - intros [H|[[H1 H2]|(H1 & H2 & H3)]]; [congruence|left; split; [lia|exact H2]|right; split; [lia|exact H3]].
  - intros [[H1 H2]|[H1 H2]]; [right; left; split; [lia|exact H2]|right; right; repeat split; try lia; exact H2].
Qed.

(** the levels reset after a sweep are exactly the levels next to an accepted exchange *)
Theorem reset_levels_spec n ds t : 0 < n -> length ds = n - 1 ->
  let idx := sweep_idx (n - 1) (seq 0 n) ds in
  let dec tj := nth (n - 2 - tj) ds false in
  In t (reset_levels idx) <-> t < n /\ ((S t < n /\ dec t = true) \/ (0 < t /\ dec (t - 1) = true)).
Proof.
  intros Hn Hds idx dec. unfold reset_levels. rewrite filter_In, in_seq.
  unfold idx at 1. rewrite sweep_idx_length.
  split.
  - intros [[_ Ht] Hneq]. cbn in Ht. split; [exact Ht|].
    apply (sweep_idx_moved n ds t Hn Ht Hds).
    apply Bool.negb_true_iff in Hneq. apply Nat.eqb_neq in Hneq. fold idx. congruence.
  - intros [Ht H]. split; [lia|].
    apply (sweep_idx_moved n ds t Hn Ht Hds) in H. fold idx in H.
    apply Bool.negb_true_iff. apply Nat.eqb_neq. congruence.
Qed.
