(** The continuous proposals over the reals: truncated-normal families report the conditional
    density of their rejection loops, so that the Hastings factor is the ratio of the acceptance
    masses; the normal, eigenvector and solid-angle families are symmetric; the von Mises-Fisher
    polar angle is drawn by the exact inverse cdf and the rotation is a rotation. *)
From Coq Require Import Reals Lra Lia ZArith List Bool.
From Epsie Require Import Num NumR Dens.
Import ListNotations.
Local Open Scope R_scope.

Section Cont.
  Variable Phi : R -> R.
  Hypothesis Phi_incr : forall x y, x < y -> Phi x < Phi y.
  Variable l2p : R.                                        (* ln sqrt(2 pi) *)
  Definition massC (a b : R) : R := Phi b - Phi a.

  Notation lnphiR := (@lnphi R _ l2p).

  Lemma lnphi_even z : lnphiR (- z) = lnphiR z.
  Proof. unfold lnphi, ntwo. cbn [nopp ndiv nmul nsub nadd none NumReal]. f_equal. unfold Rdiv. ring. Qed.

  (** ** Normal: depends on (x' - x)^2 only *)
  Theorem n_symmetric (std x x' : R) : n_logpdf1 l2p std x x' = n_logpdf1 l2p std x' x.
  Proof.
    unfold n_logpdf1. cbn [nsub ndiv nln NumReal]. f_equal.
    replace ((x' - x) / std) with (- ((x - x') / std)) by (unfold Rdiv; ring). apply lnphi_even.
  Qed.

  (** ** scipy's truncnorm.logpdf in standard units *)
  Lemma tlogpdf_in a b std z : a <= z <= b ->
    tlogpdf massC l2p a b std z = Some (lnphiR z - ln std - ln (massC a b)).
  Proof.
    intros [H1 H2]. unfold tlogpdf. cbn [nltb nsub nln NumReal].
    destruct (Rltb z a) eqn:E1; [apply Rltb_true in E1; lra|].
    destruct (Rltb b z) eqn:E2; [apply Rltb_true in E2; lra|]. reflexivity.
  Qed.
  Lemma tlogpdf_out a b std z : z < a \/ b < z -> tlogpdf massC l2p a b std z = None.
  Proof.
    intros H. unfold tlogpdf. cbn [nltb NumReal].
    destruct (Rltb z a) eqn:E1; [reflexivity|]. destruct (Rltb b z) eqn:E2; [reflexivity|].
    apply Rltb_false in E1. apply Rltb_false in E2. lra.
  Qed.

  Lemma std_between lo hi std mu x : 0 < std ->
    ((lo - mu) / std <= (x - mu) / std <= (hi - mu) / std <-> lo <= x <= hi).
  Proof.
    intros Hs. assert (Hi : 0 < / std) by (apply Rinv_0_lt_compat; exact Hs). unfold Rdiv. split.
    - intros [A B]. apply Rmult_le_reg_r in A; [|exact Hi]. apply Rmult_le_reg_r in B; [|exact Hi]. lra.
    - intros [A B]. split; apply Rmult_le_compat_r; lra.
  Qed.

  (** ** BoundedNormal *)
  (** acceptance probability of the rejection loop started at y: mass of [lo, hi] under N(y, std) *)
  Definition acc (lo hi std y : R) : R := massC ((lo - y) / std) ((hi - y) / std).

  (** inside the bounds: the log of the normal density centred at the current point, minus the
      log of the acceptance probability - the conditional density of the first accepted draw *)
  Theorem bn_reported (lo hi std mu x : R) : 0 < std -> lo <= x <= hi ->
    bn_logpdf1 massC l2p lo hi std mu x = Some ((lnphiR ((x - mu) / std) - ln std) - ln (acc lo hi std mu)).
  Proof.
    intros Hs Hx. unfold bn_logpdf1. cbn [nsub ndiv NumReal]. rewrite tlogpdf_in; [reflexivity|].
    apply std_between; assumption.
  Qed.
  (** outside the bounds: density zero *)
  Theorem bn_support (lo hi std mu x : R) : 0 < std -> (x < lo \/ hi < x) ->
    bn_logpdf1 massC l2p lo hi std mu x = None.
  Proof.
    intros Hs Hx. unfold bn_logpdf1. cbn [nsub ndiv NumReal]. apply tlogpdf_out.
    assert (Hi : 0 < / std) by (apply Rinv_0_lt_compat; exact Hs). unfold Rdiv.
    destruct Hx; [left|right]; apply Rmult_lt_compat_r; lra.
  Qed.
  (** Hastings factor: log q(x|x') - log q(x'|x) = log acc(x) - log acc(x'): the normal kernels cancel *)
  Theorem bn_hastings (lo hi std x x' : R) : 0 < std -> lo <= x <= hi -> lo <= x' <= hi ->
    exists fwd rev, bn_logpdf1 massC l2p lo hi std x x' = Some fwd /\ bn_logpdf1 massC l2p lo hi std x' x = Some rev
      /\ rev - fwd = ln (acc lo hi std x) - ln (acc lo hi std x').
  Proof.
    intros Hs Hx Hx'. rewrite (bn_reported lo hi std x x' Hs Hx'), (bn_reported lo hi std x' x Hs Hx).
    eexists. eexists. split; [reflexivity|]. split; [reflexivity|].
    replace ((x - x') / std) with (- ((x' - x) / std)) by (unfold Rdiv; ring). rewrite lnphi_even. ring.
  Qed.
  Lemma acc_pos lo hi std y : 0 < std -> lo < hi -> 0 < acc lo hi std y.
  Proof.
    intros Hs H. unfold acc, massC.
    assert ((lo - y) / std < (hi - y) / std) by (apply Rmult_lt_compat_r; [apply Rinv_0_lt_compat; exact Hs|lra]).
    pose proof (Phi_incr _ _ H0). lra.
  Qed.

  (** the wider the proposal, the smaller the acceptance probability of one draw - so the expected
      number of draws per jump, 1 / acc, never decreases when an adaptive scale grows *)
  Theorem acc_antitone (lo hi y s1 s2 : R) : 0 < s1 <= s2 -> lo <= y <= hi ->
    acc lo hi s2 y <= acc lo hi s1 y.
  Proof.
    intros [H1 H2] [Hl Hh]. unfold acc, massC.
    assert (Hi : / s2 <= / s1) by (apply Rinv_le_contravar; lra).
    assert (A : (hi - y) / s2 <= (hi - y) / s1) by (unfold Rdiv; apply Rmult_le_compat_l; lra).
    assert (B : (lo - y) / s1 <= (lo - y) / s2).
    { unfold Rdiv. replace ((lo - y) * / s1) with (- ((y - lo) * / s1)) by ring.
      replace ((lo - y) * / s2) with (- ((y - lo) * / s2)) by ring.
      apply Ropp_le_contravar. apply Rmult_le_compat_l; lra. }
    assert (Pm : forall a b, a <= b -> Phi a <= Phi b).
    { intros a b [Hab| ->]; [left; apply Phi_incr; exact Hab|right; reflexivity]. }
    pose proof (Pm _ _ A). pose proof (Pm _ _ B). lra.
  Qed.
  Corollary expected_draws_monotone (lo hi y s1 s2 : R) : 0 < s1 <= s2 -> lo <= y <= hi -> lo < hi ->
    / acc lo hi s1 y <= / acc lo hi s2 y.
  Proof.
    intros Hs Hy Hw. apply Rinv_le_contravar; [apply acc_pos; lra|apply acc_antitone; assumption].
  Qed.

  (** ** Eigenvector: a one-dimensional normal step along a unit direction *)
  Theorem eig_even (s dx : R) : eig_logpdf l2p s (- dx) = eig_logpdf l2p s dx.
  Proof.
    unfold eig_logpdf. cbn [ndiv nsub nln NumReal]. f_equal.
    replace (- dx / s) with (- (dx / s)) by (unfold Rdiv; ring). apply lnphi_even.
  Qed.
  (** the reverse move uses the same direction and the opposite step *)
  Theorem eig_jump_reverse (x v : list R) (dx : R) : length v = length x ->
    @eig_jump R _ (@eig_jump R _ x v dx) v (- dx) = x.
  Proof.
    revert v; induction x as [|a x IH]; intros [|b v] Hl; cbn in *; try lia; [reflexivity|].
    f_equal; [ring|]. apply IH. lia.
  Qed.

  (** ** BoundedEigenvector: truncated to the segment [0, width] of the line, in distance from one end *)
  Definition acc1 (s width mu : R) : R := massC (- mu / s) ((width - mu) / s).
  Theorem beig_reported (s mu xi width : R) : 0 < s -> 0 <= xi <= width ->
    beig_logpdf massC l2p s mu xi width = Some ((lnphiR ((xi - mu) / s) - ln s) - ln (acc1 s width mu)).
  Proof.
    intros Hs Hx. unfold beig_logpdf. cbn [nsub ndiv nopp NumReal]. rewrite tlogpdf_in; [reflexivity|].
    replace (- mu / s) with ((0 - mu) / s) by (unfold Rdiv; ring). apply std_between; assumption.
  Qed.
  Theorem beig_hastings (s width mu xi : R) : 0 < s -> 0 <= mu <= width -> 0 <= xi <= width ->
    exists fwd rev, beig_logpdf massC l2p s mu xi width = Some fwd /\ beig_logpdf massC l2p s xi mu width = Some rev
      /\ rev - fwd = ln (acc1 s width mu) - ln (acc1 s width xi).
  Proof.
    intros Hs Hm Hx. rewrite (beig_reported s mu xi width Hs Hx), (beig_reported s xi mu width Hs Hm).
    eexists. eexists. split; [reflexivity|]. split; [reflexivity|].
    replace ((mu - xi) / s) with (- ((xi - mu) / s)) by (unfold Rdiv; ring). rewrite lnphi_even. ring.
  Qed.

  (** ** von Mises-Fisher on the sphere *)
  Theorem vmf_symmetric (kappa norm : R) (x g : R * R) :
    vmf_logpdf sin cos kappa norm x g = vmf_logpdf sin cos kappa norm g x.
  Proof.
    unfold vmf_logpdf, dot3, s2c. destruct x as [p1 t1], g as [p2 t2]. cbn [fst snd nadd nmul nln NumReal]. ring.
  Qed.

  (** polar cdf of the von Mises-Fisher law about the pole, and the draw by its inverse *)
  Definition vmf_cdf (k th : R) : R := (exp k - exp (k * cos th)) / (exp k - exp (- k)).
  Theorem vmf_inverse_cdf (k u : R) : 0 < k -> 0 <= u <= 1 ->
    vmf_cdf k (vmf_theta PI acos k (vmf_norm PI k (sinh k)) u) = u.
  Proof.
    intros Hk [Hu0 Hu1]. unfold vmf_cdf, vmf_theta, vmf_norm, ntwo.
    cbn [nln nexp nsub nmul ndiv nadd none nofZ NumReal].
    assert (Hlt : exp (- k) < exp k) by (apply exp_increasing; lra).
    assert (Hsh : 0 < sinh k) by (unfold sinh; lra).
    pose proof PI_RGT_0 as Hpi.
    replace (k * u / ((1 + 1) * PI * (k / (4 * PI * sinh k)))) with (u * (exp k - exp (- k))).
    2:{ unfold sinh. field. repeat split; lra. }
    set (y := exp k - u * (exp k - exp (- k))).
    assert (Hy1 : exp (- k) <= y) by (unfold y; nra).
    assert (Hy2 : y <= exp k) by (unfold y; nra).
    assert (Hy0 : 0 < y) by (pose proof (exp_pos (- k)); lra).
    assert (Hl1 : - k <= ln y).
    { rewrite <- (ln_exp (- k)). destruct Hy1 as [H|H]; [left; apply ln_increasing; [apply exp_pos|exact H]|rewrite H; lra]. }
    assert (Hl2 : ln y <= k).
    { pose proof (ln_exp k) as Ek. destruct Hy2 as [H|H]; [left; rewrite <- Ek; apply ln_increasing; [exact Hy0|exact H]|rewrite H; lra]. }
    rewrite cos_acos.
    2:{ split.
        - apply (Rmult_le_reg_r k); [lra|]. unfold Rdiv. rewrite Rmult_assoc, Rinv_l; lra.
        - apply (Rmult_le_reg_r k); [lra|]. unfold Rdiv. rewrite Rmult_assoc, Rinv_l; lra. }
    replace (k * (ln y / k)) with (ln y) by (field; lra).
    rewrite exp_ln by exact Hy0. unfold y. field. lra.
  Qed.

  (** the rotation used to carry the pole to the current point: rows as in [_rotmat] *)
  Definition rot (beta gamma : R) : list (list R) :=
    [[cos beta * cos gamma; - sin gamma; sin beta * cos gamma];
     [cos beta * sin gamma; cos gamma; sin beta * sin gamma];
     [- sin beta; 0; cos beta]].
  Theorem rot_pole (beta gamma : R) :
    @matvec R _ (rot beta gamma) (0, 0, 1) = (sin beta * cos gamma, sin beta * sin gamma, cos beta).
  Proof. unfold matvec, rot. cbn [nadd nmul nzero NumReal]. f_equal; [f_equal|]; ring. Qed.
  (** it preserves the dot product (it is orthogonal) *)
  Theorem rot_orthogonal (beta gamma : R) (a b : R * R * R) :
    @dot3 R _ (@matvec R _ (rot beta gamma) a) (@matvec R _ (rot beta gamma) b) = @dot3 R _ a b.
  Proof.
    destruct a as [[a1 a2] a3], b as [[b1 b2] b3]. unfold matvec, rot, dot3. cbn [nadd nmul nzero nopp NumReal].
    pose proof (sin2_cos2 beta) as Hb. pose proof (sin2_cos2 gamma) as Hg. unfold Rsqr in *.
    assert (Eb : cos beta * cos beta = 1 - sin beta * sin beta) by lra.
    assert (Eg : cos gamma * cos gamma = 1 - sin gamma * sin gamma) by lra.
    ring_simplify. 
    replace (cos beta ^ 2) with (1 - sin beta ^ 2) by (simpl; lra).
    replace (cos gamma ^ 2) with (1 - sin gamma ^ 2) by (simpl; lra). ring.
  Qed.
End Cont.
