(** Resuming from a saved state (C05), chain and parallel-tempered machine.

    [get_state] keeps: iteration, current position / stats / blob, proposed position, hasblobs;
    [set_state] installs them into ANY chain (freshly constructed or not), re-deriving the active
    set from the NaN pattern of the position.  We show that the restored chain is
    *resume-equivalent* ([req]) to the one the state was read from, that resume-equivalence is
    preserved by every step and every temperature sweep, and that equivalent chains make the
    very same new records - for every input stream, any scratch layout and any [lastclear]. *)
From Coq Require Import ZArith Lia Permutation.
From Epsie Require Import Base Machine Machine_proofs Sweep_proofs PT_proofs.

Lemma Forall2_nth' {A B} (R : A -> B -> Prop) l l' d d' :
  length l = length l' -> (forall t, t < length l -> R (nth t l d) (nth t l' d')) -> Forall2 R l l'.
Proof.
  revert l'; induction l as [|x l IH]; intros [|y l'] Hl H; cbn in *; try lia; constructor.
  - apply (H 0). lia.
  - apply IH; [lia|]. intros t Ht. apply (H (S t)). lia.
Qed.

Lemma Forall2_In_r' {A B} (R : A -> B -> Prop) l l' y : Forall2 R l l' -> In y l' -> exists x, In x l /\ R x y.
Proof. induction 1 as [|a b l l' Hab H IH]; cbn; [tauto|]. intros [<-|Hy]; [eauto|]. destruct (IH Hy) as (x & Hx & Rx). eauto. Qed.

Section Resume.
  Variable V : Type.
  Variable isneginf isnan : V -> bool.
  Variable vzero : V.
  Variable comps : list (list nat).

  Notation chain := (chain V). Notation ptchain := (ptchain V).
  Notation hrow := (hrow V). Notation sin := (sin V).
  Notation step := (step V isneginf vzero).
  Notation step_row := (step_row V isneginf vzero).
  Notation lastrow := (lastrow V vzero).
  Notation clen := (clen V).
  Notation cur_pos := (cur_pos V). Notation cur_stats := (cur_stats V). Notation cur_blob := (cur_blob V).
  Notation Hist := (Hist V vzero). Notation Started := (Started V).
  Notation swap_temperatures := (swap_temperatures V vzero).
  Notation pt_step := (pt_step V isneginf vzero).
  Notation step_levels := (step_levels V isneginf vzero).
  Notation run_steps := (run_steps V isneginf vzero).
  Notation pt_iter := (pt_iter V). Notation lvl0 := (lvl0 V). Notation ntemps := (ntemps V).
  Notation new_chain := (new_chain V).
  Notation PTInv := (PTInv V vzero).
  Notation get_state := (get_state V).
  Notation set_state := (set_state V isnan vzero comps).
  Notation pattern := (pattern V isnan comps).

  (** ** resume-equivalence of two chains: everything a step reads, nothing of the history *)
  Record req (c d : chain) : Prop := {
    r_iter : iter V c = iter V d;
    r_pos : cur_pos c = cur_pos d;
    r_stats : cur_stats c = cur_stats d;
    r_blob : cur_blob c = cur_blob d;
    r_prop : proposed V c = proposed V d;
    r_act : active V c = active V d;
    r_blobs : hasblobs V c = hasblobs V d
  }.

  Lemma req_refl c : req c c.
  Proof. constructor; reflexivity. Qed.
  Lemma req_sym c d : req c d -> req d c.
  Proof. intros []; constructor; auto. Qed.
  Lemma req_trans c d e : req c d -> req d e -> req c e.
  Proof. intros [] []; constructor; congruence. Qed.

  (** two chains whose newest record is observably the same (the blob only where blobs are recorded) *)
  Definition same_record (c d : chain) : Prop :=
    h_pos V (lastrow c) = h_pos V (lastrow d) /\ h_stats V (lastrow c) = h_stats V (lastrow d)
    /\ h_acc V (lastrow c) = h_acc V (lastrow d)
    /\ (hasblobs V c = true -> h_blob V (lastrow c) = h_blob V (lastrow d)).
  Lemma same_record_of_eq c d : lastrow c = lastrow d -> same_record c d.
  Proof. intros E. unfold same_record. rewrite E. auto. Qed.

  (** *** restoring a snapshot into any chain gives an equivalent chain *)
  Theorem restore_req (c0 c : chain) :
    (forall p, cur_pos c = Some p -> active V c = pattern p) ->
    (exists p, cur_pos c = Some p) ->
    req (set_state c0 (get_state c)) c.
  Proof.
    intros Hact [p Hp].
    constructor; unfold Machine.set_state, Machine.get_state; cbn.
    - reflexivity.
    - unfold Machine.cur_pos, Machine.clen; cbn. now rewrite Nat.sub_diag.
    - unfold Machine.cur_stats, Machine.clen; cbn. now rewrite Nat.sub_diag.
    - unfold Machine.cur_blob at 1, Machine.clen; cbn. rewrite Nat.sub_diag. cbn.
      unfold Machine.cur_blob. destruct (hasblobs V c); reflexivity.
    - reflexivity.
    - fold (cur_pos c). rewrite Hp. symmetry. apply Hact. exact Hp.
    - reflexivity.
  Qed.

  (** the restored chain satisfies the history invariant and can be stepped *)
  Lemma set_state_iter c0 s : iter V (set_state c0 s) = st_iter V s /\ lastclear V (set_state c0 s) = st_iter V s.
  Proof. split; reflexivity. Qed.

  (** *** equivalent chains make the same record *)
  Lemma req_step_row c d i : req c d -> step_row c i = step_row d i.
  Proof. intros R. unfold Machine_proofs.step_row. now rewrite (r_pos _ _ R), (r_stats _ _ R), (r_blob _ _ R). Qed.

  Lemma step_lastrow c c' i : step c i = Good c' -> lastrow c' = step_row c i.
  Proof.
    intros Hs. destruct (step_fields V isneginf vzero c c' i Hs) as (_ & _ & _ & Eh & _).
    unfold Machine.lastrow. rewrite Eh. apply last_app1.
  Qed.

  Lemma step_active c c' i : step c i = Good c' ->
    active V c' = (if snd (h_acc V (step_row c i)) then s_state V i else active V c).
  Proof.
    unfold Machine.step, Machine_proofs.step_row.
    destruct (cur_pos c); [|discriminate]. destruct (cur_stats c); [|discriminate].
    destruct (s_out V i) as [[logl logp] bl].
    destruct (if isneginf logp then (false, vzero) else match s_dec V i with Some d0 => d0 | None => (false, vzero) end) as [acc ar].
    intros [= <-]. reflexivity.
  Qed.

  Theorem req_step c d c' i :
    Hist c -> Hist d -> req c d -> step c i = Good c' ->
    exists d', step d i = Good d' /\ req c' d' /\ lastrow c' = lastrow d'.
  Proof.
    intros HC HD R Hs.
    assert (exists d', step d i = Good d') as [d' Hd].
    { unfold Machine.step in *. rewrite <- (r_pos _ _ R), <- (r_stats _ _ R).
      destruct (cur_pos c); [|discriminate]. destruct (cur_stats c); [|discriminate].
      destruct (s_out V i) as [[logl logp] bl].
      destruct (if isneginf logp then (false, vzero) else match s_dec V i with Some d0 => d0 | None => (false, vzero) end).
      eauto. }
    exists d'. split; [exact Hd|].
    pose proof (step_lastrow c c' i Hs) as Lc. pose proof (step_lastrow d d' i Hd) as Ld.
    pose proof (req_step_row c d i R) as Er.
    assert (EL : lastrow c' = lastrow d') by congruence.
    split; [|exact EL].
    destruct (step_fields V isneginf vzero c c' i Hs) as (Ei & _ & _ & _ & _ & Eb & _ & _ & _ & _ & Ep & _).
    destruct (step_fields V isneginf vzero d d' i Hd) as (Ei' & _ & _ & _ & _ & Eb' & _ & _ & _ & _ & Ep' & _).
    pose proof (step_Hist V isneginf vzero c c' i HC Hs) as HC'.
    pose proof (step_Hist V isneginf vzero d d' i HD Hd) as HD'.
    destruct (cur_of_hist V vzero c' HC') as (A & B & C); [lia|].
    destruct (cur_of_hist V vzero d' HD') as (A' & B' & C'); [lia|].
    assert (Ehb : hasblobs V c' = hasblobs V d') by (rewrite Eb, Eb'; apply R).
    constructor.
    - rewrite Ei, Ei', (r_iter _ _ R). reflexivity.
    - rewrite A, A', EL. reflexivity.
    - rewrite B, B', EL. reflexivity.
    - destruct (hasblobs V c') eqn:Hb.
      + rewrite C, C' by congruence. rewrite EL. reflexivity.
      + rewrite !cur_blob_noblobs by congruence. reflexivity.
    - rewrite Ep, Ep'. reflexivity.
    - rewrite (step_active c c' i Hs), (step_active d d' i Hd), Er, (r_act _ _ R). reflexivity.
    - exact Ehb.
  Qed.

  (** *** all levels of a ladder *)
  Lemma req_step_levels cs : forall ds ins cs',
    Forall Hist cs -> Forall Hist ds -> Forall2 req cs ds -> step_levels cs ins = Good cs' ->
    exists ds', step_levels ds ins = Good ds' /\ Forall2 req cs' ds'
                /\ Forall2 (fun c' d' => lastrow c' = lastrow d') cs' ds'.
  Proof.
    induction cs as [|c cs IH]; intros ds ins cs' HC HD G Hs; inversion G; subst; cbn in Hs.
    - injection Hs as <-. exists []. repeat split; constructor.
    - destruct ins as [|i ins]; [discriminate|].
      destruct (step c i) as [c1|] eqn:E1; [|discriminate].
      destruct (step_levels cs ins) as [r|] eqn:E2; [|discriminate]. injection Hs as <-.
      inversion HC; subst. inversion HD; subst.
      destruct (req_step c y c1 i) as (d1 & Hd1 & G1 & L1); auto.
      destruct (IH l' ins r) as (ds' & Hds & G' & L'); auto.
      exists (d1 :: ds'). cbn. rewrite Hd1, Hds. repeat split; constructor; auto.
  Qed.

  (** every level of a ladder records blobs, or none does *)
  Definition SameBlobs (p : ptchain) : Prop :=
    forall c, In c (levels V p) -> hasblobs V c = hasblobs V (lvl0 p).

  Record PTreq (p q : ptchain) : Prop := {
    R_lv : Forall2 req (levels V p) (levels V q);
    R_si : si V p = si V q
  }.

  Lemma PTreq_iter p q : PTreq p q -> pt_iter p = pt_iter q /\ ntemps p = ntemps q.
  Proof.
    intros G. split; [|apply (Forall2_length' _ _ _ (R_lv _ _ G))].
    unfold Machine.pt_iter, Machine.lvl0. destruct (R_lv _ _ G); [reflexivity|]. cbn. apply r_iter. assumption.
  Qed.

  Lemma put_row_keeps (c src : chain) ii :
    hasblobs V (put_row V vzero c src ii) = hasblobs V c /\ proposed V (put_row V vzero c src ii) = proposed V c
    /\ iter V (put_row V vzero c src ii) = iter V c.
  Proof. unfold Machine.put_row. destruct (Machine.cur_pos V src), (Machine.cur_stats V src); auto. Qed.

  Lemma swap_level_keeps p sw t : t < ntemps p ->
    let old := nth t (levels V p) new_chain in
    let new := nth t (levels V (swap_temperatures p sw)) new_chain in
    hasblobs V new = hasblobs V old /\ proposed V new = proposed V old /\ iter V new = iter V old.
  Proof.
    intros Ht. cbn zeta. rewrite swap_levels.
    rewrite (imap_nth _ (levels V p) 0 t new_chain new_chain) by exact Ht. apply put_row_keeps.
  Qed.

  Lemma nth_In_levels p t : t < ntemps p -> In (nth t (levels V p) new_chain) (levels V p).
  Proof. intros H. apply nth_In. exact H. Qed.

  Lemma swap_req p q sw :
    PTInv p -> PTInv q -> SameBlobs p -> SameBlobs q -> PTreq p q ->
    0 < pt_iter p - lastclear V (lvl0 p) -> 0 < pt_iter q - lastclear V (lvl0 q) ->
    PTreq (swap_temperatures p sw) (swap_temperatures q sw).
  Proof.
    intros HP HQ SP SQ G Hp Hq.
    destruct (PTreq_iter p q G) as (Eit & En).
    constructor; [|cbn; apply G].
    apply (Forall2_nth' _ _ _ new_chain new_chain).
    - rewrite !swap_levels, !(imap_length _ 0). apply (Forall2_length' _ _ _ (R_lv _ _ G)).
    - intros t Ht. rewrite swap_levels, (imap_length _ 0) in Ht. fold (ntemps p) in Ht.
      assert (Ht' : t < ntemps q) by lia.
      destruct (swap_permutes V vzero p sw t HP Hp Ht) as (Hi & A & B & C & D & _).
      destruct (swap_permutes V vzero q sw t HQ Hq Ht') as (Hi' & A' & B' & C' & D' & _).
      destruct (swap_level_keeps p sw t Ht) as (K1 & K2 & K3).
      destruct (swap_level_keeps q sw t Ht') as (K1' & K2' & K3').
      assert (Eidx : sweep_index V p sw = sweep_index V q sw) by (unfold sweep_index; now rewrite En).
      rewrite <- Eidx in *.
      set (k := nth t (sweep_index V p sw) 0) in *.
      pose proof (Forall2_nth _ _ _ k new_chain new_chain (R_lv _ _ G) Hi) as Rk.
      pose proof (Forall2_nth _ _ _ t new_chain new_chain (R_lv _ _ G) Ht) as Rt.
      assert (Hbp : forall u, u < ntemps p -> hasblobs V (nth u (levels V p) new_chain) = hasblobs V (lvl0 p))
        by (intros u Hu; apply SP, nth_In_levels; exact Hu).
      assert (Hbq : forall u, u < ntemps q -> hasblobs V (nth u (levels V q) new_chain) = hasblobs V (lvl0 q))
        by (intros u Hu; apply SQ, nth_In_levels; exact Hu).
      constructor.
      + rewrite K3, K3'. apply Rt.
      + rewrite A, A'. apply Rk.
      + rewrite B, B'. apply Rk.
      + assert (Hkp : hasblobs V (nth k (levels V p) new_chain) = hasblobs V (nth t (levels V p) new_chain))
          by (rewrite (Hbp k Hi), (Hbp t Ht); reflexivity).
        assert (Hkq : hasblobs V (nth k (levels V q) new_chain) = hasblobs V (nth t (levels V q) new_chain))
          by (rewrite (Hbq k Hi'), (Hbq t Ht'); reflexivity).
        pose proof (r_blobs _ _ Rt) as Htq.
        destruct (hasblobs V (nth t (levels V p) new_chain)) eqn:Hb.
        * rewrite C by auto. rewrite C' by congruence. apply Rk.
        * rewrite !cur_blob_noblobs; [reflexivity| |]; congruence.
      + rewrite K2, K2'. apply Rt.
      + rewrite D, D'. apply Rk.
      + rewrite K1, K1'. apply Rt.
  Qed.

  Lemma SameBlobs_stepped p ls :
    SameBlobs p -> levels V p <> [] ->
    Forall2 (fun c c' => hasblobs V c' = hasblobs V c) (levels V p) ls ->
    SameBlobs {| levels := ls; si := si V p; tS := tS V p; tA := tA V p; sweeps := sweeps V p |}.
  Proof.
    intros SP Hne HF c' Hc'. unfold Machine.lvl0; cbn.
    destruct (Forall2_In_r' _ _ _ _ HF Hc') as (c & Hc & E).
    rewrite E, (SP c Hc). unfold Machine.lvl0. destruct HF; [congruence|]. cbn. symmetry. assumption.
  Qed.

  Lemma step_levels_blobs cs : forall ins cs', step_levels cs ins = Good cs' ->
    Forall2 (fun c c' => hasblobs V c' = hasblobs V c) cs cs'.
  Proof.
    induction cs as [|c cs IH]; intros ins cs' Hs; cbn in Hs.
    - injection Hs as <-. constructor.
    - destruct ins as [|i ins]; [discriminate|].
      destruct (step c i) as [c1|] eqn:E1; [|discriminate].
      destruct (step_levels cs ins) as [r|] eqn:E2; [|discriminate]. injection Hs as <-.
      constructor; [|eapply IH; eauto].
      destruct (step_fields V isneginf vzero c c1 i E1) as (_ & _ & _ & _ & _ & Eb & _). exact Eb.
  Qed.

  Lemma SameBlobs_swap p sw : PTInv p -> SameBlobs p -> SameBlobs (swap_temperatures p sw).
  Proof.
    intros HI SP c' Hc'.
    assert (Hne := I_nonempty V vzero p HI).
    assert (Hn : 0 < ntemps p). { unfold Machine.ntemps. destruct (levels V p); [congruence|cbn; lia]. }
    assert (Hlen : length (levels V (swap_temperatures p sw)) = ntemps p) by (rewrite swap_levels; apply (imap_length _ 0)).
    destruct (In_nth _ _ new_chain Hc') as (t & Ht & <-). rewrite Hlen in Ht.
    destruct (swap_level_keeps p sw t Ht) as (K1 & _). rewrite K1.
    destruct (swap_level_keeps p sw 0 Hn) as (K0 & _).
    assert (E0 : lvl0 (swap_temperatures p sw) = nth 0 (levels V (swap_temperatures p sw)) new_chain).
    { unfold Machine.lvl0. destruct (levels V (swap_temperatures p sw)); reflexivity. }
    rewrite E0, K0. rewrite (SP _ (nth_In_levels p t Ht)), (SP _ (nth_In_levels p 0 Hn)). reflexivity.
  Qed.

  (** the complete invariant carried along a run *)
  Definition RInv (p : ptchain) : Prop := PTInv p /\ SameBlobs p.

  Lemma pt_step_RInv p ins sw p' : RInv p -> pt_step p ins sw = Good p' -> RInv p'.
  Proof.
    intros [HI SP] Hs. split; [eapply (pt_step_inv V isneginf isnan vzero); eauto|].
    unfold Machine.pt_step in Hs.
    destruct (step_levels (levels V p) ins) as [ls|] eqn:E; [|discriminate].
    destruct (step_levels_spec V isneginf vzero _ _ _ (I_hist V vzero p HI) (I_started V vzero p HI) E) as (HH & HS & HF).
    destruct (levels_stepped_inv V isneginf isnan vzero p ls HI HH HS HF) as (HI1 & _).
    pose proof (SameBlobs_stepped p ls SP (I_nonempty V vzero p HI) (step_levels_blobs _ _ _ E)) as S1.
    destruct ((1 <? _) && _); injection Hs as <-; [apply SameBlobs_swap; assumption|exact S1].
  Qed.

  (** *** one iteration of the whole ladder, sweep included *)
  Theorem pt_step_req p q ins sw p' :
    RInv p -> RInv q -> PTreq p q -> pt_step p ins sw = Good p' ->
    exists q', pt_step q ins sw = Good q' /\ PTreq p' q' /\ RInv p' /\ RInv q'
               /\ Forall2 same_record (levels V p') (levels V q').
  Proof.
    intros [HP SP] [HQ SQ] G Hs.
    assert (Hq' : exists q', pt_step q ins sw = Good q' /\ PTreq p' q'
                             /\ Forall2 same_record (levels V p') (levels V q')).
    { unfold Machine.pt_step in *.
      destruct (step_levels (levels V p) ins) as [ls|] eqn:E; [|discriminate].
      destruct (req_step_levels _ _ _ _ (I_hist V vzero p HP) (I_hist V vzero q HQ) (R_lv _ _ G) E) as (ls' & E' & G' & L').
      rewrite E'.
      destruct (step_levels_spec V isneginf vzero _ _ _ (I_hist V vzero p HP) (I_started V vzero p HP) E) as (HH & HS & HF).
      destruct (step_levels_spec V isneginf vzero _ _ _ (I_hist V vzero q HQ) (I_started V vzero q HQ) E') as (HH' & HS' & HF').
      destruct (levels_stepped_inv V isneginf isnan vzero p ls HP HH HS HF) as (HI1 & Ei1 & El1).
      destruct (levels_stepped_inv V isneginf isnan vzero q ls' HQ HH' HS' HF') as (HI1' & Ei1' & El1').
      pose proof (SameBlobs_stepped p ls SP (I_nonempty V vzero p HP) (step_levels_blobs _ _ _ E)) as S1.
      pose proof (SameBlobs_stepped q ls' SQ (I_nonempty V vzero q HQ) (step_levels_blobs _ _ _ E')) as S1'.
      set (p1 := {| levels := ls; si := si V p; tS := tS V p; tA := tA V p; sweeps := sweeps V p |}) in *.
      set (q1 := {| levels := ls'; si := si V q; tS := tS V q; tA := tA V q; sweeps := sweeps V q |}) in *.
      assert (G1 : PTreq p1 q1) by (constructor; cbn; auto; apply G).
      destruct (PTreq_iter p1 q1 G1) as (Eit & En).
      rewrite <- (R_si _ _ G), <- Eit, <- En.
      destruct ((1 <? ntemps p1) && (pt_iter p1 mod si V p =? 0)); injection Hs as <-.
      - assert (Hpp : 0 < pt_iter p1 - lastclear V (lvl0 p1)).
        { rewrite Ei1, El1. pose proof (I_hist V vzero p HP) as H. rewrite Forall_forall in H.
          pose proof (H_le V vzero _ (H _ (lvl0_in V p (I_nonempty V vzero p HP)))). unfold Machine.pt_iter. lia. }
        assert (Hqq : 0 < pt_iter q1 - lastclear V (lvl0 q1)).
        { rewrite Ei1', El1'. pose proof (I_hist V vzero q HQ) as H. rewrite Forall_forall in H.
          pose proof (H_le V vzero _ (H _ (lvl0_in V q (I_nonempty V vzero q HQ)))). unfold Machine.pt_iter. lia. }
        eexists. split; [reflexivity|].
        pose proof (swap_req p1 q1 sw HI1 HI1' S1 S1' G1 Hpp Hqq) as G2.
        split; [exact G2|].
        (* the last records after the sweep: position/stats/blob of the source level, acceptance of the level itself *)
        apply (Forall2_nth' _ _ _ new_chain new_chain).
        + rewrite !swap_levels, !(imap_length _ 0). apply (Forall2_length' _ _ _ G').
        + intros t Ht. rewrite swap_levels, (imap_length _ 0) in Ht. fold (ntemps p1) in Ht.
          assert (Ht' : t < ntemps q1) by lia.
          destruct (swap_inv V vzero p1 sw HI1 Hpp) as (HI2 & _).
          destruct (swap_inv V vzero q1 sw HI1' Hqq) as (HI2' & _).
          pose proof (Forall2_nth _ _ _ t new_chain new_chain (R_lv _ _ G2)) as Rt.
          rewrite swap_levels, (imap_length _ 0) in Rt. specialize (Rt Ht).
          set (c2 := nth t (levels V (swap_temperatures p1 sw)) new_chain) in *.
          set (d2 := nth t (levels V (swap_temperatures q1 sw)) new_chain) in *.
          assert (Hc2 : In c2 (levels V (swap_temperatures p1 sw)))
            by (apply nth_In; rewrite swap_levels, (imap_length _ 0); exact Ht).
          assert (Hd2 : In d2 (levels V (swap_temperatures q1 sw)))
            by (apply nth_In; rewrite swap_levels, (imap_length _ 0); exact Ht').
          pose proof (I_hist V vzero _ HI2) as F2. rewrite Forall_forall in F2.
          pose proof (I_hist V vzero _ HI2') as F2'. rewrite Forall_forall in F2'.
          destruct (swap_permutes V vzero p1 sw t HI1 Hpp Ht) as (_ & _ & _ & _ & _ & Acc & _ & _ & It).
          destruct (swap_permutes V vzero q1 sw t HI1' Hqq Ht') as (_ & _ & _ & _ & _ & Acc' & _ & _ & It').
          fold c2 in Acc, It. fold d2 in Acc', It'.
          pose proof (Forall2_nth _ _ _ t new_chain new_chain L') as Lt. specialize (Lt Ht).
          assert (Hit : 0 < iter V c2).
          { rewrite It. pose proof (Forall2_nth _ _ _ t new_chain new_chain HF) as X.
            assert (t < length (levels V p)) by (rewrite (Forall2_length' _ _ _ HF); exact Ht).
            destruct (X H) as (Y & _). change (nth t (levels V p1) new_chain) with (nth t ls new_chain). lia. }
          assert (Hit' : 0 < iter V d2) by (rewrite <- (r_iter _ _ Rt); exact Hit).
          destruct (cur_of_hist V vzero c2 (F2 _ Hc2) Hit) as (P1 & P2 & P3).
          destruct (cur_of_hist V vzero d2 (F2' _ Hd2) Hit') as (Q1 & Q2 & Q3).
          assert (X1 : Some (h_pos V (lastrow c2)) = Some (h_pos V (lastrow d2))) by (rewrite <- P1, <- Q1; apply (r_pos _ _ Rt)).
          assert (X2 : Some (h_stats V (lastrow c2)) = Some (h_stats V (lastrow d2))) by (rewrite <- P2, <- Q2; apply (r_stats _ _ Rt)).
          assert (Ehb2 : hasblobs V c2 = hasblobs V d2) by apply (r_blobs _ _ Rt).
          assert (X5 : h_acc V (lastrow c2) = h_acc V (lastrow d2)).
          { rewrite Acc, Acc'. change (nth t (levels V p1) new_chain) with (nth t ls new_chain).
            change (nth t (levels V q1) new_chain) with (nth t ls' new_chain). now rewrite Lt. }
          unfold same_record. repeat split; try congruence.
          intros Hb.
          assert (X3 : Some (h_blob V (lastrow c2)) = Some (h_blob V (lastrow d2))).
          { rewrite <- P3 by exact Hb. rewrite <- Q3 by congruence. apply (r_blob _ _ Rt). }
          congruence.
      - eexists. split; [reflexivity|]. split; [exact G1|]. cbn.
        eapply Forall2_impl'; [|exact L']. intros a b E0. apply same_record_of_eq. exact E0. }
    destruct Hq' as (q' & Hq & G' & L').
    exists q'. split; [exact Hq|]. split; [exact G'|].
    split; [eapply pt_step_RInv; [|exact Hs]; split; assumption|].
    split; [eapply pt_step_RInv; [|exact Hq]; split; assumption|exact L'].
  Qed.

  (** *** whole runs: the records made iteration by iteration *)
  Fixpoint run_trace (p : ptchain) (steps : list (list sin * list (V * bool))) : list (list chain) :=
    match steps with
    | [] => []
    | (ins, sw) :: t => match pt_step p ins sw with
                        | Good p' => levels V p' :: run_trace p' t
                        | Bad _ => []
                        end
    end.

  Theorem run_steps_req steps : forall p q p',
    RInv p -> RInv q -> PTreq p q -> run_steps p steps = Good p' ->
    exists q', run_steps q steps = Good q' /\ PTreq p' q' /\ RInv p' /\ RInv q'
               /\ Forall2 (Forall2 same_record) (run_trace p steps) (run_trace q steps).
  Proof.
    induction steps as [|[ins sw] t IH]; intros p q p' HP HQ G Hr; cbn in *.
    - injection Hr as <-. exists q. split; [reflexivity|]. split; [exact G|]. split; [exact HP|]. split; [exact HQ|constructor].
    - destruct (pt_step p ins sw) as [p1|] eqn:E; [|discriminate].
      destruct (pt_step_req p q ins sw p1 HP HQ G E) as (q1 & E' & G1 & HP1 & HQ1 & L1). rewrite E'.
      destruct (IH p1 q1 p' HP1 HQ1 G1 Hr) as (q' & Hq' & G' & HP' & HQ' & L').
      exists q'. split; [exact Hq'|]. split; [exact G'|]. split; [exact HP'|]. split; [exact HQ'|constructor; assumption].
  Qed.

  Lemma PTreq_sym p q : PTreq p q -> PTreq q p.
  Proof.
    intros [A B]. constructor; [|auto]. clear B. induction A; constructor; auto. now apply req_sym.
  Qed.
  Lemma PTreq_trans p q r : PTreq p q -> PTreq q r -> PTreq p r.
  Proof.
    intros [A B] [A' B']. constructor; [|congruence]. clear B B'.
    revert A'. generalize (levels V r). induction A; intros l3 A'; inversion A'; subst; constructor; eauto using req_trans.
  Qed.

  (** *** restoring a snapshot *)
  Lemma pad_last n (r : hrow) d : 0 < n -> last (repeat r n) d = r.
  Proof. induction n as [|[|n] IH]; intros H; [lia|reflexivity|]. change (repeat r (S (S n))) with (r :: repeat r (S n)).
         cbn [last]. change (r :: repeat r n) with (repeat r (S n)). apply IH. lia. Qed.

  Lemma set_state_Hist (c0 : chain) (s : cstate V) p st :
    st_pos V s = Some p -> st_stats V s = Some st -> (st_hasblobs V s = true -> exists b, st_blob V s = Some b) ->
    Hist (set_state c0 s) /\ Started (set_state c0 s).
  Proof.
    intros Ep Es Eb. split.
    - constructor; unfold Machine.set_state, Machine.clen; cbn; rewrite ?Nat.sub_diag; cbn.
      + lia.
      + unfold Machine.pad_hist. rewrite Ep, Es. apply repeat_length.
      + rewrite skipn_all'; [reflexivity|]. unfold Machine.pad_hist. rewrite Ep, Es, repeat_length. lia.
      + rewrite skipn_all'; [reflexivity|]. unfold Machine.pad_hist. rewrite Ep, Es, repeat_length. lia.
      + rewrite skipn_all'; [reflexivity|]. unfold Machine.pad_hist. rewrite Ep, Es, repeat_length. lia.
      + intros _. rewrite skipn_all'; [reflexivity|]. unfold Machine.pad_hist. rewrite Ep, Es, repeat_length. lia.
      + intros _ Hpos. unfold Machine.lastrow; cbn. unfold Machine.pad_hist. rewrite Ep, Es.
        rewrite pad_last by exact Hpos. cbn. repeat split; auto.
        intros Hb. destruct (Eb Hb) as [b Hbb]. rewrite Hbb. reflexivity.
    - unfold Machine_proofs.Started, Machine.set_state; cbn. repeat split; eauto.
  Qed.

  (** [ParallelTemperedChain.set_state] on a chain [q0] (fresh or not) with the state of [p] *)
  Definition restore (q0 p : ptchain) : ptchain :=
    {| levels := map (fun '(c, s) => set_state c s) (combine (levels V q0) (map get_state (levels V p)));
       si := si V q0; tS := tS V q0; tA := tA V q0; sweeps := sweeps V q0 |}.

  (** the active set of every level is the NaN pattern of its position (the invariant of C10) *)
  Definition Active (p : ptchain) : Prop :=
    forall c pos0, In c (levels V p) -> cur_pos c = Some pos0 -> active V c = pattern pos0.

  Lemma cur_some c : Hist c -> Started c ->
    (exists p, cur_pos c = Some p) /\ (exists s, cur_stats c = Some s) /\ (hasblobs V c = true -> exists b, cur_blob c = Some b).
  Proof.
    intros HI (S1 & S2 & S3).
    destruct (Nat.eq_dec (iter V c) 0) as [E|E].
    - assert (lastclear V c = 0) by (pose proof (H_le V vzero c HI); lia).
      unfold Machine.cur_pos, Machine.cur_stats, Machine.cur_blob, Machine.clen. rewrite E, H. cbn.
      repeat split; auto. intros Hb. rewrite Hb. cbn. auto.
    - destruct (cur_of_hist V vzero c HI) as (A & B & C); [lia|]. repeat split; eauto.
  Qed.

  Lemma restore_levels_nth q0 p t : length (levels V q0) = length (levels V p) -> t < length (levels V p) ->
    nth t (levels V (restore q0 p)) new_chain
    = set_state (nth t (levels V q0) new_chain) (get_state (nth t (levels V p) new_chain)).
  Proof.
    intros Hl Ht. unfold restore; cbn.
    set (f := fun '(c, s) => set_state c s).
    change new_chain with (f (new_chain, get_state new_chain)) at 1.
    rewrite map_nth, combine_nth by (rewrite map_length; exact Hl).
    unfold f. f_equal. change (get_state new_chain) with (get_state new_chain). apply map_nth.
  Qed.

  Lemma restore_length q0 p : length (levels V q0) = length (levels V p) -> length (levels V (restore q0 p)) = length (levels V p).
  Proof. intros Hl. unfold restore; cbn. rewrite map_length, combine_length, map_length. lia. Qed.

  Theorem restore_PTreq q0 p :
    RInv p -> Active p -> length (levels V q0) = length (levels V p) -> si V q0 = si V p ->
    RInv (restore q0 p) /\ PTreq (restore q0 p) p.
  Proof.
    intros [HI SB] HA Hl Hsi.
    pose proof (I_hist V vzero p HI) as HH. rewrite Forall_forall in HH.
    pose proof (I_started V vzero p HI) as HS. rewrite Forall_forall in HS.
    pose proof (restore_length q0 p Hl) as Hlen.
    assert (Hne := I_nonempty V vzero p HI).
    assert (Hn : 0 < length (levels V p)) by (destruct (levels V p); [congruence|cbn; lia]).
    assert (Hlev : forall t, t < length (levels V p) ->
              let c := nth t (levels V p) new_chain in
              let r := nth t (levels V (restore q0 p)) new_chain in
              Hist r /\ Started r /\ req r c /\ iter V r = iter V c /\ lastclear V r = iter V c /\ hasblobs V r = hasblobs V c).
    { intros t Ht c r.
      assert (Hc : In c (levels V p)) by (apply nth_In; exact Ht).
      destruct (cur_some c (HH _ Hc) (HS _ Hc)) as ((pp & Ep) & (ss & Es) & Eb).
      unfold r. rewrite (restore_levels_nth q0 p t Hl Ht). fold c.
      destruct (set_state_Hist (nth t (levels V q0) new_chain) (get_state c) pp ss) as (A & B); cbn; auto.
      split; [exact A|]. split; [exact B|].
      split; [apply restore_req; [|eauto]; intros p0 Hp0; apply (HA c p0 Hc Hp0)|].
      split; [reflexivity|]. split; reflexivity. }
    assert (E0 : forall (x : ptchain), lvl0 x = nth 0 (levels V x) new_chain)
      by (intros x; unfold Machine.lvl0; destruct (levels V x); reflexivity).
    split; [split|].
    - constructor.
      + apply Forall_forall. intros r Hr. destruct (In_nth _ _ new_chain Hr) as (t & Ht & <-). rewrite Hlen in Ht. apply (Hlev t Ht).
      + apply Forall_forall. intros r Hr. destruct (In_nth _ _ new_chain Hr) as (t & Ht & <-). rewrite Hlen in Ht. apply (Hlev t Ht).
      + intros r Hr. destruct (In_nth _ _ new_chain Hr) as (t & Ht & <-). rewrite Hlen in Ht.
        destruct (Hlev t Ht) as (_ & _ & _ & Ei & El & _). destruct (Hlev 0 Hn) as (_ & _ & _ & Ei0 & El0 & _).
        unfold Machine.pt_iter. rewrite !E0, Ei, El, Ei0, El0.
        destruct (I_sync V vzero p HI _ (nth_In _ new_chain Ht)) as (X & _).
        destruct (I_sync V vzero p HI _ (nth_In _ new_chain Hn)) as (X0 & _). split; congruence.
      + intros E. apply (f_equal (@length _)) in E. rewrite Hlen in E. cbn in E. lia.
    - intros r Hr. destruct (In_nth _ _ new_chain Hr) as (t & Ht & <-). rewrite Hlen in Ht.
      destruct (Hlev t Ht) as (_ & _ & _ & _ & _ & Eb). destruct (Hlev 0 Hn) as (_ & _ & _ & _ & _ & Eb0).
      rewrite E0, Eb, Eb0. rewrite (SB _ (nth_In _ new_chain Ht)), (SB _ (nth_In _ new_chain Hn)). reflexivity.
    - constructor; [|exact Hsi].
      apply (Forall2_nth' _ _ _ new_chain new_chain); [exact Hlen|].
      intros t Ht. rewrite Hlen in Ht. apply (Hlev t Ht).
  Qed.

  (** *** resuming continues exactly *)
  Theorem resume_exact p q0 steps p' :
    RInv p -> Active p -> length (levels V q0) = length (levels V p) -> si V q0 = si V p ->
    run_steps p steps = Good p' ->
    exists q', run_steps (restore q0 p) steps = Good q' /\ PTreq p' q' /\ RInv p' /\ RInv q'
               /\ Forall2 (Forall2 same_record) (run_trace p steps) (run_trace (restore q0 p) steps).
  Proof.
    intros HP HA Hl Hsi Hr.
    destruct (restore_PTreq q0 p HP HA Hl Hsi) as (HQ & G).
    apply (run_steps_req steps p (restore q0 p) p' HP HQ (PTreq_sym _ _ G) Hr).
  Qed.

  (** *** any number of resumes *)
  (** the '_state' of every proposed point is the NaN pattern of that point (C10) *)
  Definition wf_sin (i : sin) : Prop := s_state V i = pattern (s_prop V i).
  Definition wf_steps (steps : list (list sin * list (V * bool))) : Prop :=
    Forall (fun st => Forall wf_sin (fst st)) steps.

  Lemma step_Active_level c c' i pos0 :
    Hist c -> step c i = Good c' -> wf_sin i ->
    (forall p0, cur_pos c = Some p0 -> active V c = pattern p0) ->
    cur_pos c' = Some pos0 -> active V c' = pattern pos0.
  Proof.
    intros HC Hs Hw HA Hp.
    pose proof (step_Hist V isneginf vzero c c' i HC Hs) as HC'.
    destruct (step_fields V isneginf vzero c c' i Hs) as (Ei & _).
    destruct (cur_of_hist V vzero c' HC') as (A & _); [lia|].
    rewrite (step_lastrow c c' i Hs) in A. rewrite A in Hp. injection Hp as <-.
    rewrite (step_active c c' i Hs).
    unfold Machine.step in Hs. unfold Machine_proofs.step_row.
    destruct (cur_pos c) as [cp|] eqn:Ecp; [|discriminate]. destruct (cur_stats c); [|discriminate].
    destruct (s_out V i) as [[logl logp] bl].
    destruct (if isneginf logp then (false, vzero) else match s_dec V i with Some d0 => d0 | None => (false, vzero) end) as [acc ar].
    cbn. destruct acc; [exact Hw|apply HA; reflexivity].
  Qed.

  Lemma step_levels_Active cs : forall ins cs',
    Forall Hist cs -> Forall wf_sin ins -> step_levels cs ins = Good cs' ->
    (forall c p0, In c cs -> cur_pos c = Some p0 -> active V c = pattern p0) ->
    (forall c p0, In c cs' -> cur_pos c = Some p0 -> active V c = pattern p0).
  Proof.
    induction cs as [|c cs IH]; intros ins cs' HH HW Hs HA c' p0 Hin Hp; cbn in Hs.
    - injection Hs as <-. destruct Hin.
    - destruct ins as [|i ins]; [discriminate|].
      destruct (step c i) as [c1|] eqn:E1; [|discriminate].
      destruct (step_levels cs ins) as [r|] eqn:E2; [|discriminate]. injection Hs as <-.
      inversion HH; subst. inversion HW; subst.
      destruct Hin as [<-|Hin].
      + eapply step_Active_level; eauto. intros q0 Hq0. apply (HA c q0); [now left|exact Hq0].
      + eapply (IH ins r); eauto. intros d q0 Hd Hq0. apply (HA d q0); [now right|exact Hq0].
  Qed.

  Lemma pt_step_Active p ins sw p' :
    RInv p -> Active p -> Forall wf_sin ins -> pt_step p ins sw = Good p' -> Active p'.
  Proof.
    intros [HI SB] HA HW Hs. unfold Machine.pt_step in Hs.
    destruct (step_levels (levels V p) ins) as [ls|] eqn:E; [|discriminate].
    destruct (step_levels_spec V isneginf vzero _ _ _ (I_hist V vzero p HI) (I_started V vzero p HI) E) as (HH & HS & HF).
    destruct (levels_stepped_inv V isneginf isnan vzero p ls HI HH HS HF) as (HI1 & Ei1 & El1).
    pose proof (step_levels_Active _ _ _ (I_hist V vzero p HI) HW E HA) as A1.
    set (p1 := {| levels := ls; si := si V p; tS := tS V p; tA := tA V p; sweeps := sweeps V p |}) in *.
    destruct ((1 <? ntemps p1) && (pt_iter p1 mod si V p =? 0)); injection Hs as <-; [|exact A1].
    assert (Hpp : 0 < pt_iter p1 - lastclear V (lvl0 p1)).
    { rewrite Ei1, El1. pose proof (I_hist V vzero p HI) as H. rewrite Forall_forall in H.
      pose proof (H_le V vzero _ (H _ (lvl0_in V p (I_nonempty V vzero p HI)))). unfold Machine.pt_iter. lia. }
    intros c' p0 Hin Hp.
    destruct (In_nth _ _ new_chain Hin) as (t & Ht & <-).
    rewrite swap_levels, (imap_length _ 0) in Ht. fold (ntemps p1) in Ht.
    destruct (swap_permutes V vzero p1 sw t HI1 Hpp Ht) as (Hi & A & _ & _ & D & _).
    rewrite D. rewrite A in Hp. apply (A1 _ p0); [apply nth_In; exact Hi|exact Hp].
  Qed.

  Lemma run_steps_Active steps : forall p p',
    RInv p -> Active p -> wf_steps steps -> run_steps p steps = Good p' -> Active p'.
  Proof.
    induction steps as [|[ins sw] t IH]; intros p p' HP HA HW Hr; cbn in Hr.
    - injection Hr as <-. exact HA.
    - destruct (pt_step p ins sw) as [p1|] eqn:E; [|discriminate].
      inversion HW; subst. cbn in *.
      apply (IH p1 p'); auto; [eapply pt_step_RInv; eauto|eapply pt_step_Active; eauto].
  Qed.

  Lemma set_state_active c0 c p0 :
    cur_pos (set_state c0 (get_state c)) = Some p0 -> active V (set_state c0 (get_state c)) = pattern p0.
  Proof.
    intros H.
    assert (E : cur_pos (set_state c0 (get_state c)) = cur_pos c)
      by (unfold Machine.set_state, Machine.get_state, Machine.cur_pos at 1, Machine.clen; cbn; now rewrite Nat.sub_diag).
    rewrite E in H. unfold Machine.set_state, Machine.get_state; cbn. fold (cur_pos c). rewrite H. reflexivity.
  Qed.

  (** resume, run a segment, resume again, ... *)
  Fixpoint resumes (q : ptchain) (rs : list (ptchain * list (list sin * list (V * bool)))) : result ptchain :=
    match rs with
    | [] => Good q
    | (f, seg) :: t => match run_steps (restore f q) seg with
                       | Good q1 => resumes q1 t
                       | Bad e => Bad e
                       end
    end.

  Definition fits (p f : ptchain) : Prop := length (levels V f) = length (levels V p) /\ si V f = si V p.

  Lemma PTreq_fits p q f : PTreq p q -> fits p f -> fits q f.
  Proof. intros G [A B]. split; [rewrite A; apply (Forall2_length' _ _ _ (R_lv _ _ G))|rewrite B; apply G]. Qed.

  Lemma run_steps_fits steps : forall p p' f, RInv p -> run_steps p steps = Good p' -> fits p f -> fits p' f.
  Proof.
    induction steps as [|[ins sw] t IH]; intros p p' f HP Hr Hf; cbn in Hr.
    - injection Hr as <-. exact Hf.
    - destruct (pt_step p ins sw) as [p1|] eqn:E; [|discriminate].
      destruct (pt_step_inv V isneginf isnan vzero p ins sw p1 (proj1 HP) E) as (_ & _ & _ & Es & El).
      apply (IH p1 p' f); [eapply pt_step_RInv; eauto|exact Hr|].
      destruct Hf as [A B]. split; congruence.
  Qed.

  Theorem resume_chain rs : forall p q p',
    RInv p -> RInv q -> Active q -> PTreq p q ->
    Forall (fun r => fits p (fst r) /\ wf_steps (snd r)) rs ->
    run_steps p (concat (map snd rs)) = Good p' ->
    exists q', resumes q rs = Good q' /\ PTreq p' q'.
  Proof.
    induction rs as [|[f seg] t IH]; intros p q p' HP HQ HA G HF Hr; cbn in *.
    - injection Hr as <-. eauto.
    - inversion HF as [|? ? [Hfit Hwf] HF']; subst. cbn in *.
      rewrite run_steps_app in Hr.
      destruct (run_steps p seg) as [p1|] eqn:E; [|discriminate].
      destruct (PTreq_fits p q f G Hfit) as [Hl Hs].
      destruct (restore_PTreq f q HQ HA Hl Hs) as (HR & GR).
      assert (G1 : PTreq p (restore f q)) by (eapply PTreq_trans; [exact G|apply PTreq_sym; exact GR]).
      destruct (run_steps_req seg p (restore f q) p1 HP HR G1 E) as (q1 & E' & G' & HP1 & HQ1 & _).
      rewrite E'.
      assert (AR : Active (restore f q)).
      { intros c p0 Hin Hp0. destruct (In_nth _ _ new_chain Hin) as (k & Hk & <-).
        rewrite (restore_length f q Hl) in Hk. rewrite (restore_levels_nth f q k Hl Hk) in *.
        apply set_state_active. exact Hp0. }
      apply (IH p1 q1 p' HP1 HQ1); auto.
      + eapply (run_steps_Active seg (restore f q) q1); eauto.
      + eapply Forall_impl; [|exact HF']. intros [f' s'] [Hf' Hw']. split; [|exact Hw'].
        cbn in *. eapply (run_steps_fits seg p p1); eauto.

  Qed.
End Resume.
