(** C08, full strength: on every level of a parallel-tempered chain, at every time, across
    temperature sweeps and clears, every record ever made — position, (logl, logp) AND blob — is
    the argument and the outputs of one model evaluation made by some level of that chain.
    (Sweeps carry records between levels, so "some level" cannot be sharpened.)

    Premise on the model (what the code itself requires, else [Chain.step] raises when it
    unpacks the model's return value): the model returns a blob either always or never. *)
From Coq Require Import ZArith Lia List.
From Epsie Require Import Base Machine Machine_proofs Sweep_proofs PT_proofs.
Import ListNotations.

Section Genuine.
  Variable V : Type.
  Variable isneginf isnan : V -> bool.
  Variable vzero : V.
  Variable comps : list (list nat).

  Notation chain := (chain V). Notation ptchain := (ptchain V).
  Notation hrow := (hrow V). Notation sin := (sin V).
  Notation step := (step V isneginf vzero).
  Notation put_row := (put_row V vzero).
  Notation lastrow := (lastrow V vzero).
  Notation clen := (clen V).
  Notation cur_pos := (cur_pos V). Notation cur_stats := (cur_stats V). Notation cur_blob := (cur_blob V).
  Notation Hist := (Hist V vzero). Notation Started := (Started V).
  Notation PTInv := (PTInv V vzero).
  Notation swap_temperatures := (swap_temperatures V vzero).
  Notation pt_step := (pt_step V isneginf vzero).
  Notation step_levels := (step_levels V isneginf vzero).
  Notation run_steps := (run_steps V isneginf vzero).
  Notation pt_clear := (pt_clear V). Notation pt_grow := (pt_grow V).
  Notation pt_iter := (pt_iter V). Notation lvl0 := (lvl0 V). Notation ntemps := (ntemps V).
  Notation new_chain := (new_chain V).
  Notation exec := (exec V isneginf isnan vzero comps).
  Notation execs := (execs V isneginf isnan vzero comps).
  Notation op := (op V).

  Definition rec3 : Type := (pos V * stats V * blob V)%type.
  Definition ev3 (x : pos V * mout V) : rec3 := let '(p, (l, lp, bl)) := x in (p, (l, lp), oblob V bl).
  Definition row3 (r : hrow) : rec3 := (h_pos V r, h_stats V r, h_blob V r).
  Definition evals (ls : list chain) : list rec3 := concat (map (fun c => map ev3 (calls V c)) ls).
  Definition start3 (c : chain) : option rec3 :=
    match start V c, stats0 V c with
    | Some p, Some s => Some (p, s, oblob V (if hasblobs V c then blob0 V c else None))
    | _, _ => None
    end.

  Record GenLevel (b : bool) (E : list rec3) (c : chain) : Prop := {
    G_hb : hasblobs V c = b;
    G_rows : forall r, In r (hist V c) -> In (row3 r) E;
    G_start : iter V c = 0 -> forall t, start3 c = Some t -> In t E;
    G_noblob : b = false -> forall r, In r (hist V c) -> h_blob V r = []
  }.
  Definition Genuine (b : bool) (p : ptchain) : Prop := Forall (GenLevel b (evals (levels V p))) (levels V p).

  Lemma GenLevel_incl b E E' c : incl E E' -> GenLevel b E c -> GenLevel b E' c.
  Proof. intros Hi [A B C D]. constructor; intros; auto. Qed.

  Lemma evals_incl ls : forall ls', Forall2 (fun c c' => incl (calls V c) (calls V c')) ls ls' -> incl (evals ls) (evals ls').
  Proof.
    induction ls as [|c ls IH]; intros ls' HF; inversion HF; subst; unfold evals; cbn; [apply incl_refl|].
    apply incl_app_app; [|apply IH; assumption]. intros x0 Hx. apply in_map_iff in Hx as (y0 & <- & Hy). apply in_map. auto.
  Qed.

  Lemma in_evals ls c x : In c ls -> In x (calls V c) -> In (ev3 x) (evals ls).
  Proof.
    intros Hc Hx. unfold evals. apply in_concat. exists (map ev3 (calls V c)). split; [|now apply in_map].
    now apply (in_map (fun c => map ev3 (calls V c))).
  Qed.

  (** what the last record of a stepped level is, as a triple *)
  Lemma cur3_of_hist b E c : Hist c -> GenLevel b E c ->
    forall cp cs, cur_pos c = Some cp -> cur_stats c = Some cs ->
    In (cp, cs, oblob V (cur_blob c)) E /\ (b = false -> oblob V (cur_blob c) = []).
  Proof.
    intros HI [Ghb Grows Gstart Gnb] cp cs Ep Es.
    destruct (Nat.eq_dec (iter V c) 0) as [Ez|Ez].
    - assert (El : lastclear V c = 0) by (pose proof (H_le V vzero c HI); lia).
      unfold Machine.cur_pos, Machine.cur_stats, Machine.cur_blob, Machine.clen in *. rewrite Ez, El in *. cbn in *.
      split.
      + apply Gstart; [reflexivity|]. unfold start3. rewrite Ep, Es. destruct (hasblobs V c); reflexivity.
      + intros ->. rewrite Ghb. reflexivity.
    - destruct (cur_of_hist V vzero c HI) as (A & B & C); [lia|].
      rewrite A in Ep. rewrite B in Es. injection Ep as <-. injection Es as <-.
      assert (Hin : In (lastrow c) (hist V c)).
      { unfold Machine.lastrow. apply last_In. intros Eh. pose proof (H_len V vzero c HI) as Hl. rewrite Eh in Hl. cbn in Hl. lia. }
      destruct b.
      + rewrite C by exact Ghb. cbn. split; [apply (Grows _ Hin)|discriminate].
      + rewrite (cur_blob_noblobs V c Ghb). cbn. split; [|reflexivity].
        pose proof (Grows _ Hin) as H. unfold row3 in H. rewrite (Gnb eq_refl _ Hin) in H. exact H.
  Qed.

  Definition disciplined (b : bool) (i : sin) : Prop := b = false -> snd (s_out V i) = None.

  Lemma step_gen b E c c' i :
    Hist c -> GenLevel b E c -> disciplined b i -> step c i = Good c' ->
    GenLevel b (E ++ [ev3 (s_prop V i, s_out V i)]) c'.
  Proof.
    intros HI G Hd Hs.
    destruct (step_fields V isneginf vzero c c' i Hs) as (Ei & _ & _ & Eh & _ & Ehb & _).
    pose proof G as [Ghb Grows Gstart Gnb].
    assert (Hrow : In (row3 (step_row V isneginf vzero c i)) (E ++ [ev3 (s_prop V i, s_out V i)])
                   /\ (b = false -> h_blob V (step_row V isneginf vzero c i) = [])).
    { unfold step_row. unfold Machine.step in Hs.
      destruct (cur_pos c) as [cp|] eqn:Ep; [|discriminate]. destruct (cur_stats c) as [cs|] eqn:Es; [|discriminate].
      destruct (cur3_of_hist b E c HI G cp cs Ep Es) as (Hc3 & Hcb).
      unfold disciplined in Hd. destruct (s_out V i) as [[logl logp] bl]. cbn [snd] in Hd.
      destruct (if isneginf logp then (false, vzero) else match s_dec V i with Some d => d | None => (false, vzero) end) as [acc ar].
      destruct acc; unfold row3; cbn.
      - split; [apply in_or_app; right; now left|]. intros Hb. rewrite (Hd Hb). reflexivity.
      - split; [apply in_or_app; left; exact Hc3|exact Hcb]. }
    destruct Hrow as (Hr1 & Hr2).
    constructor.
    - now rewrite Ehb.
    - intros r Hr. rewrite Eh in Hr. apply in_app_or in Hr as [Hr|[<-|[]]]; [apply in_or_app; left; auto|exact Hr1].
    - intros Hz. lia.
    - intros Hb r Hr. rewrite Eh in Hr. apply in_app_or in Hr as [Hr|[<-|[]]]; auto.
  Qed.

  Lemma step_levels_gen b : forall cs ins cs' E,
    Forall Hist cs -> Forall (GenLevel b E) cs -> Forall (disciplined b) ins -> step_levels cs ins = Good cs' ->
    Forall2 (fun c c' => incl (calls V c) (calls V c')) cs cs'
    /\ forall E', incl E E' -> incl (evals cs') E' -> Forall (GenLevel b E') cs'.
  Proof.
    induction cs as [|c cs IH]; intros ins cs' E HH HG HD Hs; cbn in Hs.
    - injection Hs as <-. split; constructor.
    - destruct ins as [|i ins]; [discriminate|].
      destruct (step c i) as [c1|] eqn:E1; [|discriminate].
      destruct (step_levels cs ins) as [r|] eqn:E2; [|discriminate]. injection Hs as <-.
      inversion HH; subst. inversion HG; subst. inversion HD; subst.
      destruct (IH ins r E) as (A & B); auto.
      destruct (step_fields V isneginf vzero c c1 i E1) as (_ & _ & _ & _ & Ec & _).
      split.
      + constructor; [|exact A]. rewrite Ec. apply incl_appl, incl_refl.
      + intros E' Hi1 Hi2. constructor.
        * apply (GenLevel_incl b (E ++ [ev3 (s_prop V i, s_out V i)])); [|eapply step_gen; eauto].
          apply incl_app; [exact Hi1|]. intros x [<-|[]]. apply Hi2. apply (in_evals (c1 :: r) c1); [now left|].
          rewrite Ec. apply in_or_app. right. now left.
        * apply B; [exact Hi1|]. intros x Hx. apply Hi2. unfold evals in *. cbn. apply in_or_app. now right.
  Qed.

  Lemma in_set_last {T} (l : list T) v x : In x (set_last l v) -> In x l \/ x = v.
  Proof.
    unfold set_last. destruct l as [|a l]; [intros []|]. intros H. apply in_app_or in H as [H|[<-|[]]]; [|now right].
    left. clear -H. remember (length (a :: l) - 1) as n. clear Heqn. revert H. generalize (a :: l) as m. 
    induction n as [|n IH]; intros [|y m] H; cbn in H; try contradiction. destruct H as [<-|H]; [now left|right; auto].
  Qed.

  Lemma evals_same ls ls' : Forall2 (fun c c' => calls V c' = calls V c) ls ls' -> evals ls' = evals ls.
  Proof. induction 1 as [|c c' ls ls' H HF IH]; unfold evals in *; cbn; [reflexivity|]. now rewrite H, IH. Qed.

  (** ** the sweep moves whole genuine records between levels *)
  Lemma swap_gen b p sw :
    PTInv p -> 0 < pt_iter p - lastclear V (lvl0 p) -> Genuine b p -> Genuine b (swap_temperatures p sw).
  Proof.
    intros HI Hpos HG. unfold Genuine.
    rewrite (evals_same _ _ (swap_calls V vzero p sw HI Hpos)).
    set (E := evals (levels V p)) in *. unfold Genuine in HG. fold E in HG.
    rewrite swap_levels. apply (imap_Forall _ _ (levels V p) new_chain 0).
    intros t Ht. cbn [plus].
    assert (Hn : 0 < ntemps p) by (unfold Machine.ntemps; lia).
    assert (Hidx : nth t (sweep_index V p sw) 0 < ntemps p) by (apply sweep_idx_lt; auto).
    set (src := nth (nth t (sweep_index V p sw) 0) (levels V p) new_chain).
    set (old := nth t (levels V p) new_chain).
    assert (Hold : In old (levels V p)) by (apply nth_In; exact Ht).
    assert (Hsrc : In src (levels V p)) by (apply nth_In; exact Hidx).
    pose proof (I_hist V vzero p HI) as HH. rewrite Forall_forall in HH.
    rewrite Forall_forall in HG.
    destruct (I_sync V vzero p HI old Hold) as (Ei & El). destruct (I_sync V vzero p HI src Hsrc) as (Ei' & El').
    assert (Hc : 0 < clen old) by (unfold Machine.clen; rewrite Ei, El; exact Hpos).
    assert (Hits : 0 < iter V src) by (rewrite Ei'; lia).
    destruct (cur_of_hist V vzero src (HH _ Hsrc) Hits) as (Sp & Ss & Sb).
    replace (pt_iter p - lastclear V (lvl0 p) - 1) with (clen old - 1) by (unfold Machine.clen; rewrite Ei, El; reflexivity).
    destruct (put_row_spec V vzero old src (HH _ Hold) Hc) as (HI' & Eh & Eit & _ & _ & _ & _ & _ & Ehb & Est & Est0 & Eb0 & _); eauto.
    destruct (cur3_of_hist b E src (HH _ Hsrc) (HG _ Hsrc) _ _ Sp Ss) as (Hin & Hnb).
    pose proof (HG _ Hold) as [Ghb Grows Gstart Gnb].
    assert (Hg : row3 (put_ghost V vzero old src) = (h_pos V (lastrow src), h_stats V (lastrow src), oblob V (cur_blob src))).
    { unfold put_ghost. rewrite Sp, Ss. reflexivity. }
    constructor.
    - now rewrite Ehb.
    - intros r Hr. rewrite Eh in Hr. apply in_set_last in Hr as [Hr| ->]; [auto|]. rewrite Hg. exact Hin.
    - intros Hz. rewrite Eit, Ei in Hz. lia.
    - intros Hb r Hr. rewrite Eh in Hr. apply in_set_last in Hr as [Hr| ->]; [auto|].
      apply (f_equal snd) in Hg. cbn in Hg. unfold row3 in Hg. cbn in Hg. rewrite Hg. auto.
  Qed.

  Lemma pt_step_gen b p ins sw p' :
    PTInv p -> Genuine b p -> Forall (disciplined b) ins -> pt_step p ins sw = Good p' -> Genuine b p'.
  Proof.
    intros HI HG HD Hs. unfold Machine.pt_step in Hs.
    destruct (step_levels (levels V p) ins) as [ls|] eqn:E; [|discriminate].
    destruct (step_levels_spec V isneginf vzero _ _ _ (I_hist V vzero p HI) (I_started V vzero p HI) E) as (HH & HS & HF).
    destruct (levels_stepped_inv V isneginf isnan vzero p ls HI HH HS HF) as (HI1 & Ei1 & El1).
    set (p1 := {| levels := ls; si := si V p; tS := tS V p; tA := tA V p; sweeps := sweeps V p |}) in *.
    destruct (step_levels_gen b _ _ _ _ (I_hist V vzero p HI) HG HD E) as (Hc & Hall).
    assert (HG1 : Genuine b p1).
    { unfold Genuine. cbn. apply Hall; [apply evals_incl; exact Hc|apply incl_refl]. }
    destruct ((1 <? ntemps p1) && (pt_iter p1 mod si V p =? 0)); injection Hs as <-; [|exact HG1].
    apply swap_gen; auto.
    rewrite Ei1, El1. pose proof (I_hist V vzero p HI) as H. rewrite Forall_forall in H.
    pose proof (H_le V vzero _ (H _ (lvl0_in V p (I_nonempty V vzero p HI)))). unfold Machine.pt_iter. lia.
  Qed.

  Lemma run_steps_gen b steps : forall p p',
    PTInv p -> Genuine b p -> Forall (fun s => Forall (disciplined b) (fst s)) steps -> run_steps p steps = Good p' ->
    Genuine b p' /\ PTInv p'.
  Proof.
    induction steps as [|[ins sw] t IH]; intros p p' HI HG HD Hr; cbn in Hr.
    - injection Hr as <-. auto.
    - destruct (pt_step p ins sw) as [p1|] eqn:E; [|discriminate]. inversion HD; subst.
      destruct (pt_step_inv V isneginf isnan vzero p ins sw p1 HI E) as (HI1 & _).
      match goal with Hh : Forall (disciplined b) (fst (ins, sw)) |- _ => cbn [fst] in Hh; rename Hh into Hd0 end.
      assert (HG1 : Genuine b p1) by (exact (pt_step_gen b p ins sw p1 HI HG Hd0 E)).
      apply (IH p1 p' HI1 HG1); assumption.
  Qed.

  (** clears and scratch growth touch neither records nor evaluations *)
  Lemma map_gen b (f : chain -> chain) p :
    (forall c, hist V (f c) = hist V c /\ calls V (f c) = calls V c /\ iter V (f c) = iter V c /\ hasblobs V (f c) = hasblobs V c
               /\ (iter V c = 0 -> start3 (f c) = start3 c)) ->
    Genuine b p -> Forall (GenLevel b (evals (map f (levels V p)))) (map f (levels V p)).
  Proof.
    intros Hf HG.
    assert (Ee : evals (map f (levels V p)) = evals (levels V p)).
    { apply evals_same. clear HG. induction (levels V p); cbn; constructor; auto. apply Hf. }
    rewrite Ee. unfold Genuine in HG. rewrite Forall_forall in *. intros c' Hc'.
    apply in_map_iff in Hc' as (c & <- & Hc). destruct (Hf c) as (Eh & _ & Ei & Ehb & Es).
    destruct (HG _ Hc) as [Ghb Grows Gstart Gnb]. constructor.
    - now rewrite Ehb.
    - now rewrite Eh.
    - rewrite Ei. intros Hz. rewrite (Es Hz). auto.
    - now rewrite Eh.
  Qed.

  Lemma pt_clear_gen b p : Genuine b p -> Genuine b (pt_clear p).
  Proof.
    intros HG. unfold Genuine, Machine.pt_clear. cbn [levels]. apply map_gen; [|exact HG].
    intros c. destruct (clear_ghost V c) as (A & B & C & _ & _ & D). repeat split; auto.
    intros Hz. unfold Machine.clear. rewrite Hz. reflexivity.
  Qed.

  Lemma pt_set_scratchlen_gen b p n : Genuine b p -> Genuine b (pt_set_scratchlen V p n).
  Proof.
    intros HG. unfold Genuine, Machine.pt_set_scratchlen. cbn [levels]. apply map_gen; [|exact HG].
    intros c. repeat split; reflexivity.
  Qed.

  (** ** every schedule of runs and clears *)
  Definition op_disciplined (b : bool) (o : op) : Prop :=
    match o with ORun _ steps => Forall (fun s => Forall (disciplined b) (fst s)) steps | _ => True end.

  Theorem schedule_gen b ops : forall p p',
    PTInv p -> Genuine b p -> Forall (run_or_clear V) ops -> Forall (op_disciplined b) ops ->
    execs p ops = Good p' -> Genuine b p' /\ PTInv p'.
  Proof.
    induction ops as [|o t IH]; intros p p' HI HG HF HD He; cbn in He.
    - injection He as <-. auto.
    - inversion HF as [|? ? Ho HF']; subst. inversion HD as [|? ? Hd HD']; subst.
      destruct o as [ss|steps| |ss]; cbn in Ho; try contradiction.
      + cbn [Machine.exec] in He.
        destruct (run_steps (pt_grow p (length steps)) steps) as [p1|] eqn:E; [|discriminate].
        destruct (pt_set_scratchlen_inv V vzero p (scratchlen V (lvl0 p) + (length steps + pt_len V p - scratchlen V (lvl0 p))) HI)
          as (HIg & _).
        destruct (run_steps_gen b steps _ p1 HIg (pt_set_scratchlen_gen b p _ HG) Hd E) as (HG1 & HI1).
        apply (IH p1 p' HI1 HG1 HF' HD' He).
      + cbn [Machine.exec] in He.
        destruct (pt_clear_inv V vzero p HI) as (HIc & _).
        apply (IH (pt_clear p) p' HIc (pt_clear_gen b p HG) HF' HD' He).
  Qed.

  (** ** setting the start positions of a fresh chain *)
  Definition start_blobs (b : bool) (s : pos V * mout V) : Prop :=
    match snd (snd s) with Some _ => b = true | None => b = false end.

  Lemma set_starts_gen b cs : forall ss ls,
    Forall (fun c => iter V c = 0 /\ hist V c = []) cs -> Forall (start_blobs b) ss ->
    set_starts V isneginf isnan comps cs ss = Good ls ->
    forall E, incl (evals ls) E -> Forall (GenLevel b E) ls.
  Proof.
    induction cs as [|c cs IH]; intros ss ls HF HB Hs E Hi; cbn in Hs.
    - injection Hs as <-. constructor.
    - destruct ss as [|[p o] ss]; [discriminate|].
      destruct (set_start V isneginf isnan comps c p o) as [c1|] eqn:E1; [|discriminate].
      destruct (set_starts V isneginf isnan comps cs ss) as [r|] eqn:E2; [|discriminate]. injection Hs as <-.
      inversion HF as [|? ? (A & B) HF']; subst. inversion HB as [|? ? Hb HB']; subst.
      constructor.
      + unfold Machine.set_start in E1. destruct o as [[logl logp] bl]. destruct (isneginf logp); [discriminate|].
        injection E1 as <-. unfold start_blobs in Hb. cbn in Hb. constructor; cbn.
        * destruct bl; auto.
        * rewrite B. intros r0 [].
        * intros _ t Ht. unfold start3 in Ht. cbn in Ht. injection Ht as <-.
          apply Hi.
          match goal with |- In ?t _ => replace t with (ev3 (p, (logl, logp, bl))) by (destruct bl; reflexivity) end.
          apply in_evals with (c := {| iter := iter V c; lastclear := lastclear V c; scratchlen := scratchlen V c;
                 cP := cP V c; cS := cS V c; cA := cA V c; cB := cB V c;
                 hasblobs := match bl with Some _ => true | None => false end;
                 start := Some p; stats0 := Some (logl, logp); blob0 := bl;
                 proposed := proposed V c;
                 active := pattern V isnan comps p; proposed_active := proposed_active V c;
                 calls := calls V c ++ [(p, (logl, logp, bl))]; hist := hist V c |}); [now left|].
          cbn. apply in_or_app. right. now left.
        * rewrite B. intros _ r0 [].
      + apply (IH ss r); auto. intros x Hx. apply Hi. unfold evals in *. cbn. apply in_or_app. now right.
  Qed.

  Theorem start_gen b n swi ss p :
    Forall (start_blobs b) ss -> exec (new_pt V n swi) (OStart V ss) = Good p -> Genuine b p.
  Proof.
    intros HB He. cbn in He.
    destruct (set_starts V isneginf isnan comps (repeat new_chain n) ss) as [ls|] eqn:E; [|discriminate].
    injection He as <-. unfold Genuine. cbn [levels].
    assert (H0 : Forall (fun c : chain => iter V c = 0 /\ hist V c = []) (repeat new_chain n)).
    { apply Forall_forall. intros c Hc. apply repeat_spec in Hc. subst. cbn. auto. }
    apply (set_starts_gen b _ _ _ H0 HB E). apply incl_refl.
  Qed.

  (** ** C08: the statement *)
  Theorem all_records_genuine b n swi ss ops p0 p' :
    0 < n -> Forall (start_blobs b) ss -> exec (new_pt V n swi) (OStart V ss) = Good p0 ->
    Forall (run_or_clear V) ops -> Forall (op_disciplined b) ops -> execs p0 ops = Good p' ->
    forall c, In c (levels V p') ->
      (forall r, In r (hist V c) -> exists lv x, In lv (levels V p') /\ In x (calls V lv) /\ row3 r = ev3 x)
      /\ Hist c.
  Proof.
    intros Hn HB Hs HF HD He c Hc.
    pose proof (start_inv V isneginf isnan vzero comps n swi ss p0 Hn Hs) as HI0.
    destruct (schedule_gen b ops p0 p' HI0 (start_gen b n swi ss p0 HB Hs) HF HD He) as (HG & HI).
    unfold Genuine in HG. rewrite Forall_forall in HG. split.
    - intros r Hr. pose proof (G_rows _ _ _ (HG c Hc) r Hr) as Hin.
      unfold evals in Hin. apply in_concat in Hin as (l & Hl & Hx). apply in_map_iff in Hl as (lv & <- & Hlv).
      apply in_map_iff in Hx as (x & Ex & Hx). exists lv, x. auto.
    - pose proof (I_hist V vzero p' HI) as HH. rewrite Forall_forall in HH. auto.
  Qed.
End Genuine.
