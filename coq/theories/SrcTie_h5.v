(** Executing the plan of h5py actions rendered from today's [dump_pickle_to_hdf] ([Gen/SrcH5.v])
    with the model's primitives ([H5.create] / [resize] / [assign]) IS the model's [dump], for every
    file, group, dataset name and byte string. *)
From Coq Require Import List Bool Arith Lia.
From Epsie Require Import Base H5.
From Epsie Require Import SrcSupport Gen.SrcH5.
Import ListNotations.

Section Tie.
  Variable B : Type.
  Variable zero : B.
  Notation dset := (dset B). Notation file := (file B).

  Definition run_act (b : list B) (d : option dset) (a : h5act) : res (option dset) :=
    match a, d with
    | ACreate r, None => Ok (Some {| d_data := repeat zero (length b); d_resizable := r |})
    | ACreateWithData r, None => Ok (Some {| d_data := b; d_resizable := r |})
    | ACreate _, Some _ | ACreateWithData _, Some _ => Err ShapeError        (* name already exists *)
    | AResize, Some d0 => match resize B zero d0 (length b) with Ok d1 => Ok (Some d1) | Err e => Err e end
    | AAssign, Some d0 => match assign B d0 b with Ok d1 => Ok (Some d1) | Err e => Err e end
    | AResize, None | AAssign, None => Err KeyError
    end.

  Fixpoint run_plan (b : list B) (d : option dset) (p : list h5act) : res (option dset) :=
    match p with
    | [] => Ok d
    | a :: t => match run_act b d a with Ok d' => run_plan b d' t | Err e => Err e end
    end.

  Definition is_some {A} (o : option A) : bool := match o with Some _ => true | None => false end.
  Definition same_size (b : list B) (d : option dset) : bool :=
    match d with Some d0 => Nat.eqb (length b) (length (d_data d0)) | None => false end.

  Lemma resized_length (b : list B) (d : dset) :
    length (firstn (length b) (d_data d) ++ repeat zero (length b - length (d_data d))) = length b.
  Proof. rewrite app_length, firstn_length, repeat_length. lia. Qed.

  Ltac crunch := repeat (progress (cbn [run_plan run_act d_data d_resizable]; unfold assign, resize, create; cbn [d_data d_resizable])).

  Theorem src_dump_plan_tie (f : file) (g n : nat) (b : list B) :
    dump B zero f g n b
    = match aget f g with
      | None => Err KeyError
      | Some grp =>
          match run_plan b (aget grp n) (src_dump_plan (is_some (aget grp n)) (same_size b (aget grp n))) with
          | Ok (Some d') => Ok (aset f g (aset grp n d'))
          | Ok None => Err KeyError
          | Err e => Err e
          end
      end.
  Proof.
    unfold dump. destruct (aget f g) as [grp|]; [|reflexivity].
    destruct (aget grp n) as [d|]; cbn [is_some same_size]; unfold src_dump_plan.
    - destruct (Nat.eqb (length b) (length (d_data d))) eqn:E; cbn [negb].
      + crunch. rewrite ?E. crunch. reflexivity.
      + crunch. destruct (d_resizable d); crunch; [|reflexivity].
        rewrite ?resized_length, ?Nat.eqb_refl. crunch. reflexivity.
    - cbn [negb]. crunch. rewrite ?repeat_length, ?Nat.eqb_refl. crunch. rewrite ?Nat.eqb_refl. crunch. reflexivity.
  Qed.
End Tie.
