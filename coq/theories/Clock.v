(** The jump-interval clock of a proposal (epsie/proposals/base.py:225-314) and the
    joint proposal's use of it (joint.py:66-81).

    A proposal counts chain iterations in [_nsteps] (field [pn]); with jump interval
    [k] and duration [D] it makes a real jump iff [k = 1], or the number of
    *proposal* steps [_nsteps // k] (counted from [start_step] for adaptive
    proposals: [dk = nsteps - start_step + 1]) has reached [D], or [_nsteps] is a
    multiple of [k]; otherwise it returns the point it was given, its log-density
    is 0 in both directions and [_update] is not called.  [update] always ticks. *)
From Coq Require Import ZArith Bool.
From Epsie Require Import Base.

Record pclock := {
  pk : nat;                 (* jump_interval *)
  pD : Z;                   (* jump_interval_duration (for adaptive proposals: the adaptation duration) *)
  pstart : option Z;        (* start_step of an adaptive proposal, None otherwise *)
  pn : nat                  (* _nsteps *)
}.

Definition nsteps (p : pclock) : Z := Z.of_nat (pn p / pk p).          (* _nsteps // jump_interval *)
Definition dk (p : pclock) : Z :=
  match pstart p with Some s => (nsteps p - s + 1)%Z | None => nsteps p end.

Definition call_jump (p : pclock) : bool :=
  (pk p =? 1) || (pD p <=? dk p)%Z || (pn p mod pk p =? 0).

Definition tick (p : pclock) : pclock := {| pk := pk p; pD := pD p; pstart := pstart p; pn := S (pn p) |}.

(** ** A constituent of a joint proposal, with abstract values and adaptation state *)
Section Joint.
  Variable V A : Type.

  Record constituent := {
    clock : pclock;
    params : list nat;        (* indices of its parameters in the chain's parameter tuple *)
    adapt : A                 (* whatever [_update] adapts *)
  }.

  (** oracle of one iteration for one constituent: what [_jump] would return for its
      parameters, its two [_logpdf] values (forward, reverse) and the result of [_update] *)
  Record coracle := { o_jump : list V; o_lfwd : V; o_lrev : V; o_adapt : A }.

  Fixpoint assign (x : list V) (idx : list nat) (vals : list V) : list V :=
    match idx, vals with
    | i :: idx', v :: vals' => assign (upd x i v) idx' vals'
    | _, _ => x
    end.

  (** [JointProposal._jump]: every constituent either jumps or hands back the current values *)
  Fixpoint joint_jump (cur : list V) (cs : list constituent) (os : list coracle) (acc : list V) : list V :=
    match cs, os with
    | c :: cs', o :: os' =>
        joint_jump cur cs' os' (if call_jump (clock c) then assign acc (params c) (o_jump o) else acc)
    | _, _ => acc
    end.

  (** [JointProposal._logpdf] contributions (forward, reverse) of each constituent: [None] = contributes 0.0 *)
  Definition contrib (c : constituent) (o : coracle) : option (V * V) :=
    if call_jump (clock c) then Some (o_lfwd o, o_lrev o) else None.

  (** [JointProposal._update] *)
  Definition update1 (c : constituent) (o : coracle) : constituent :=
    {| clock := tick (clock c); params := params c;
       adapt := if call_jump (clock c) then o_adapt o else adapt c |}.

  Fixpoint joint_update (cs : list constituent) (os : list coracle) : list constituent :=
    match cs, os with
    | c :: cs', o :: os' => update1 c o :: joint_update cs' os'
    | _, _ => cs
    end.

  (** [m] chain iterations *)
  Fixpoint iterate (cs : list constituent) (oss : list (list coracle)) : list constituent :=
    match oss with
    | [] => cs
    | os :: t => iterate (joint_update cs os) t
    end.
End Joint.
