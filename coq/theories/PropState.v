(** What a proposal's [state] saves and what its [set_state] restores (C05), as data.

    A proposal object is a finite map from attribute names to values.  For every family (mix-in
    that defines [state]/[set_state]) the table below lists
      - [dynamic]: the attributes that change after construction and that [jump], [logpdf] or
        [update] read (clocks, adaptation variables; the generator state is the key "random_state");
      - [saved]: the pairs (key of the state dict, attribute assigned by [set_state]);
      - [derived]: attributes that [set_state] recomputes from saved ones
        ([_update_proposal], the eigen-decomposition, kappa's normalisation);
      - [transient]: per-jump scratch and caches (last direction drawn, cdf caches) that are
        rewritten before they are read, so they need not be saved.
    Everything else is fixed by the constructor arguments.  The table is compared with the live
    classes on every run (keys of [state], attributes that change while running, attributes
    that differ after a restore into a fresh object). *)
From Coq Require Import String List Bool.
Import ListNotations.
Open Scope string_scope.

Record famspec := {
  f_name : string;
  f_dynamic : list string;
  f_saved : list (string * string);
  f_derived : list (string * list string);
  f_transient : list string
}.

Definition mem (x : string) (l : list string) : bool := existsb (String.eqb x) l.
Definition subset (a b : list string) : bool := forallb (fun x => mem x b) a.

Definition saved_attrs (s : famspec) : list string := map snd (f_saved s).
Definition restored_attrs (s : famspec) : list string := saved_attrs s ++ map fst (f_derived s).

(** a spec is *covering* when every dynamic attribute is saved, or recomputed from saved ones *)
Fixpoint nodupb (l : list string) : bool :=
  match l with [] => true | x :: t => negb (mem x t) && nodupb t end.
Definition covering (s : famspec) : bool :=
  subset (f_dynamic s) (restored_attrs s)
  && forallb (fun d => subset (snd d) (saved_attrs s)) (f_derived s)
  && nodupb (map fst (f_saved s)) && nodupb (restored_attrs s).

Definition gen := ("random_state", "bit_generator").
Definition clk := ("nsteps", "_nsteps").
Definition sst := ("start_step", "_start_step").

Definition normal_family : famspec :=        (* Normal, BoundedNormal, Angular, NormalDiscrete, BoundedDiscrete, IsotropicSolidAngle *)
  {| f_name := "normal"; f_dynamic := ["bit_generator"; "_nsteps"]; f_saved := [gen; clk]; f_derived := [];
     f_transient := ["_cdfcache"; "_cachedstd"] |}.
Definition eigen_family : famspec :=         (* Eigenvector, BoundedEigenvector: cov is saved although constant *)
  {| f_name := "eigenvector"; f_dynamic := ["bit_generator"; "_nsteps"];
     f_saved := [gen; clk; ("cov", "_cov"); ("ind", "_ind")]; f_derived := [("_eigvals", ["_cov"]); ("_eigvects", ["_cov"])];
     f_transient := ["_ind"; "_dx"; "_cache"] |}.
Definition veitch_family : famspec :=
  {| f_name := "veitch"; f_dynamic := ["bit_generator"; "_nsteps"; "_start_step"; "_std"];
     f_saved := [gen; clk; sst; ("std", "_std")]; f_derived := [("_proposal", ["_std"])];
     f_transient := ["_cdfcache"; "_cachedstd"] |}.
Definition ss_diag_family : famspec :=
  {| f_name := "ss_diag"; f_dynamic := ["bit_generator"; "_nsteps"; "_start_step"; "_std"; "n_accepted"];
     f_saved := [gen; clk; sst; ("std", "_std"); ("n_accepted", "n_accepted")]; f_derived := [("_proposal", ["_std"])];
     f_transient := ["_cdfcache"; "_cachedstd"] |}.
Definition ss_full_family : famspec :=
  {| f_name := "ss_full"; f_dynamic := ["bit_generator"; "_nsteps"; "_start_step"; "_cov"; "n_accepted"];
     f_saved := [gen; clk; sst; ("cov", "_cov"); ("n_accepted", "n_accepted")]; f_derived := [("_proposal", ["_cov"])];
     f_transient := [] |}.
Definition at_diag_family : famspec :=
  {| f_name := "at_diag"; f_dynamic := ["bit_generator"; "_nsteps"; "_start_step"; "_std"; "_mean"; "_unit_cov"; "_log_lambda"];
     f_saved := [gen; clk; sst; ("std", "_std"); ("mean", "_mean"); ("unit_cov", "_unit_cov"); ("log_lambda", "_log_lambda")];
     f_derived := [("_proposal", ["_std"])]; f_transient := [] |}.
Definition at_full_family : famspec :=
  {| f_name := "at_full"; f_dynamic := ["bit_generator"; "_nsteps"; "_start_step"; "_cov"; "_mean"; "_unit_cov"; "_log_lambda"];
     f_saved := [gen; clk; sst; ("cov", "_cov"); ("mean", "_mean"); ("unit_cov", "_unit_cov"); ("log_lambda", "_log_lambda")];
     f_derived := [("_proposal", ["_cov"])]; f_transient := [] |}.
Definition adaptive_eigen_family : famspec :=
  {| f_name := "adaptive_eigenvector";
     f_dynamic := ["bit_generator"; "_nsteps"; "_start_step"; "_cov"; "_mu"; "_log_lambda"; "_eigvals"; "_eigvects"];
     f_saved := [gen; clk; sst; ("cov", "_cov"); ("mu", "_mu"); ("log_lambda", "_log_lambda"); ("ind", "_ind")];
     f_derived := [("_eigvals", ["_cov"; "_log_lambda"]); ("_eigvects", ["_cov"])];
     f_transient := ["_ind"; "_dx"; "_cache"] |}.
Definition adaptive_kappa_family : famspec :=
  {| f_name := "adaptive_solid_angle"; f_dynamic := ["bit_generator"; "_nsteps"; "_start_step"; "_kappa"; "_log_kappa"; "_norm"];
     f_saved := [gen; clk; sst; ("kappa", "_kappa"); ("log_kappa", "_log_kappa")]; f_derived := [("_norm", ["_kappa"])];
     f_transient := [] |}.

Definition table : list famspec :=
  [normal_family; eigen_family; veitch_family; ss_diag_family; ss_full_family; at_diag_family; at_full_family;
   adaptive_eigen_family; adaptive_kappa_family].

Fixpoint lookup (n : string) (t : list famspec) : option famspec :=
  match t with [] => None | s :: t' => if String.eqb n (f_name s) then Some s else lookup n t' end.

(** ** objects, snapshot, restore *)
Section Obj.
  Variable val : Type.
  Definition obj := list (string * val).
  Fixpoint oget (o : obj) (k : string) : option val :=
    match o with [] => None | (k', v) :: t => if String.eqb k k' then Some v else oget t k end.
  Definition oset (o : obj) (k : string) (v : option val) : obj :=
    match v with Some x => (k, x) :: o | None => o end.

  (** the state dict: key -> value of the attribute it saves *)
  Definition snapshot (s : famspec) (o : obj) : obj :=
    flat_map (fun '(key, attr) => match oget o attr with Some v => [(key, v)] | None => [] end) (f_saved s).

  (** [set_state] on an object [fresh]: assign the saved attributes, then recompute the derived ones
      ([derive a vals] = the value of attribute [a] computed from the values of its dependencies) *)
  Variable derive : string -> list (option val) -> val.
  Definition assign_saved (s : famspec) (fresh st : obj) : obj :=
    fold_left (fun o '(key, attr) => oset o attr (oget st key)) (f_saved s) fresh.
  Definition recompute (s : famspec) (o : obj) : obj :=
    fold_left (fun o' '(a, deps) => oset o' a (Some (derive a (map (oget o) deps)))) (f_derived s) o.
  Definition restore (s : famspec) (fresh st : obj) : obj := recompute s (assign_saved s fresh st).
End Obj.
