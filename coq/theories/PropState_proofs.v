(** Proofs about [PropState]: a covering table entry makes [set_state (fresh) (state o)] equal to
    [o] on every attribute, provided [o] differs from a freshly constructed object only on its
    dynamic attributes and the derived attributes of [o] are up to date. *)
From Coq Require Import String List Bool Lia.
From Epsie Require Import PropState.
Import ListNotations.
Open Scope string_scope.

Lemma mem_In x l : mem x l = true <-> In x l.
Proof.
  unfold mem. rewrite existsb_exists. split.
  - intros (y & Hy & E). apply String.eqb_eq in E. now subst.
  - intros H. exists x. split; [exact H|apply String.eqb_refl].
Qed.
Lemma subset_In a b : subset a b = true -> forall x, In x a -> In x b.
Proof. unfold subset. rewrite forallb_forall. intros H x Hx. apply mem_In, H, Hx. Qed.
Lemma nodupb_NoDup l : nodupb l = true -> NoDup l.
Proof.
  induction l as [|x t IH]; cbn; [constructor|]. intros H. apply andb_prop in H as [H1 H2].
  constructor; [|auto]. intros Hin. apply mem_In in Hin. rewrite Hin in H1. discriminate.
Qed.

Section Obj.
  Variable val : Type.
  Variable derive : string -> list (option val) -> val.
  Notation obj := (obj val).
  Notation oget := (oget val). Notation oset := (oset val).

  Lemma oget_oset o k v k' :
    oget (oset o k v) k' = if String.eqb k' k then (match v with Some x => Some x | None => oget o k' end) else oget o k'.
  Proof. destruct v; cbn; [|now destruct (String.eqb k' k)]. reflexivity. Qed.

  (** the state dict holds, under each key, the value of the attribute it saves *)
  Lemma snapshot_get (l : list (string * string)) (o : obj) key attr :
    NoDup (map fst l) -> In (key, attr) l ->
    oget (flat_map (fun '(key, attr) => match oget o attr with Some v => [(key, v)] | None => [] end) l) key = oget o attr
    \/ oget o attr = None.
  Proof.
    induction l as [|[k0 a0] t IH]; intros ND Hin; [destruct Hin|].
    inversion ND as [|? ? Hnot ND']; subst. cbn [flat_map].
    destruct Hin as [E|Hin].
    - injection E as -> ->. destruct (oget o attr) eqn:Ev; [left|right; reflexivity].
      cbn. now rewrite String.eqb_refl.
    - destruct (IH ND' Hin) as [IH'|IH']; [left|right; exact IH'].
      assert (key <> k0). { intros ->. apply Hnot. apply (in_map fst) in Hin. exact Hin. }
      destruct (oget o a0); cbn; [|exact IH'].
      destruct (String.eqb_spec key k0); [congruence|exact IH'].
  Qed.

  Lemma assign_get (l : list (string * string)) (st : obj) : forall (o0 : obj) k,
    NoDup (map snd l) ->
    oget (fold_left (fun o '(key, attr) => oset o attr (oget st key)) l o0) k
    = match find (fun ka => String.eqb (snd ka) k) l with
      | Some (key, _) => match oget st key with Some x => Some x | None => oget o0 k end
      | None => oget o0 k
      end.
  Proof.
    induction l as [|[key attr] t IH]; intros o0 k ND; cbn [fold_left find]; [reflexivity|].
    inversion ND as [|? ? Hnot ND']; subst.
    rewrite IH by exact ND'. cbn [snd]. rewrite oget_oset.
    destruct (String.eqb_spec attr k) as [->|Hne].
    - assert (F : find (fun ka => String.eqb (snd ka) k) t = None).
      { destruct (find _ t) as [[k1 a1]|] eqn:E; [|reflexivity]. apply find_some in E as [E1 E2]. cbn in E2.
        apply String.eqb_eq in E2. subst. exfalso. apply Hnot. apply (in_map snd) in E1. exact E1. }
      rewrite F, String.eqb_refl. reflexivity.
    - destruct (String.eqb_spec k attr); [congruence|]. reflexivity.
  Qed.

  Lemma recompute_get (l : list (string * list string)) (src : obj) : forall (o0 : obj) k,
    NoDup (map fst l) ->
    oget (fold_left (fun o' '(a, deps) => oset o' a (Some (derive a (map (oget src) deps)))) l o0) k
    = match find (fun ad => String.eqb (fst ad) k) l with
      | Some (a, deps) => Some (derive a (map (oget src) deps))
      | None => oget o0 k
      end.
  Proof.
    induction l as [|[a deps] t IH]; intros o0 k ND; cbn [fold_left find]; [reflexivity|].
    inversion ND as [|? ? Hnot ND']; subst.
    rewrite IH by exact ND'. cbn [fst]. rewrite oget_oset.
    destruct (String.eqb_spec a k) as [->|Hne].
    - assert (F : find (fun ad => String.eqb (fst ad) k) t = None).
      { destruct (find _ t) as [[a1 d1]|] eqn:E; [|reflexivity]. apply find_some in E as [E1 E2]. cbn in E2.
        apply String.eqb_eq in E2. subst. exfalso. apply Hnot. apply (in_map fst) in E1. exact E1. }
      rewrite F, String.eqb_refl. reflexivity.
    - destruct (String.eqb_spec k a); [congruence|]. reflexivity.
  Qed.

  Definition well_derived (s : famspec) (o : obj) : Prop :=
    forall a deps, In (a, deps) (f_derived s) -> oget o a = Some (derive a (map (oget o) deps)).
  Definition has_saved (s : famspec) (o : obj) : Prop :=
    forall key attr, In (key, attr) (f_saved s) -> oget o attr <> None.

  Lemma NoDup_app_l {A} (l r : list A) : NoDup (l ++ r) -> NoDup l /\ NoDup r /\ (forall x, In x l -> ~ In x r).
  Proof.
    induction l as [|x l IH]; cbn; intros H; [repeat split; auto; constructor|].
    inversion H as [|? ? Hn H']; subst. destruct (IH H') as (A1 & B1 & C). repeat split; auto.
    - constructor; [|exact A1]. intros Hi. apply Hn. apply in_or_app. now left.
    - intros y [<-|Hy]; [intros Hr; apply Hn, in_or_app; now right|now apply C].
  Qed.

  (** ** restoring the state of [o] into a fresh object gives [o] back, attribute by attribute *)
  Theorem restore_agrees (s : famspec) (o fresh : obj) :
    covering s = true -> well_derived s o -> has_saved s o ->
    (forall k, ~ In k (f_dynamic s) -> oget fresh k = oget o k) ->
    forall k, oget (restore val derive s fresh (snapshot val s o)) k = oget o k.
  Proof.
    intros Hc HD HS Hstat k. unfold covering in Hc.
    apply andb_prop in Hc as [Hc ND2]. apply andb_prop in Hc as [Hc ND1]. apply andb_prop in Hc as [C1 C2].
    apply nodupb_NoDup in ND1. apply nodupb_NoDup in ND2. unfold restored_attrs in ND2.
    destruct (NoDup_app_l _ _ ND2) as (NDs & NDd & Hdisj).
    pose proof (subset_In _ _ C1) as Hdyn. rewrite forallb_forall in C2.
    (* the assigned object agrees with o on saved attributes, with fresh elsewhere *)
    assert (HA : forall k0, oget (assign_saved val s fresh (snapshot val s o)) k0
                            = if mem k0 (saved_attrs s) then oget o k0 else oget fresh k0).
    { intros k0. unfold assign_saved. rewrite assign_get by exact NDs.
      destruct (find (fun ka => String.eqb (snd ka) k0) (f_saved s)) as [[key attr]|] eqn:F.
      - apply find_some in F as [F1 F2]. cbn in F2. apply String.eqb_eq in F2. subst attr.
        assert (M : mem k0 (saved_attrs s) = true) by (apply mem_In; unfold saved_attrs; apply (in_map snd) in F1; exact F1).
        rewrite M. unfold snapshot.
        destruct (snapshot_get (f_saved s) o key k0 ND1 F1) as [E|E]; [rewrite E|exfalso; exact (HS key k0 F1 E)].
        destruct (oget o k0) eqn:Ev; [reflexivity|exfalso; exact (HS key k0 F1 Ev)].
      - assert (M : mem k0 (saved_attrs s) = false).
        { destruct (mem k0 (saved_attrs s)) eqn:M; [|reflexivity]. apply mem_In in M. unfold saved_attrs in M.
          apply in_map_iff in M as ([key attr] & E & Hin). cbn in E. subst attr.
          pose proof (find_none _ _ F _ Hin) as X. cbn in X. rewrite String.eqb_refl in X. discriminate. }
        rewrite M. reflexivity. }
    unfold restore, recompute. rewrite recompute_get by exact NDd.
    destruct (find (fun ad => String.eqb (fst ad) k) (f_derived s)) as [[a deps]|] eqn:F.
    - apply find_some in F as [F1 F2]. cbn in F2. apply String.eqb_eq in F2. subst a.
      rewrite (HD k deps F1). f_equal. f_equal. apply map_ext_in. intros d Hd.
      rewrite HA. specialize (C2 _ F1). cbn in C2.
      assert (M : mem d (saved_attrs s) = true) by (apply mem_In; eapply subset_In; eauto).
      now rewrite M.
    - rewrite HA. destruct (mem k (saved_attrs s)) eqn:M; [reflexivity|].
      apply Hstat. intros Hk. apply Hdyn in Hk. apply in_app_or in Hk as [Hk|Hk].
      + apply mem_In in Hk. congruence.
      + apply in_map_iff in Hk as ([a deps] & E & Hin). cbn in E. subst a.
        pose proof (find_none _ _ F _ Hin) as X. cbn in X. rewrite String.eqb_refl in X. discriminate.
  Qed.
End Obj.

(** every entry of the family table is covering (finite check) *)
Theorem table_covering : forallb covering table = true.
Proof. vm_compute. reflexivity. Qed.

Corollary table_entry_covering s : In s table -> covering s = true.
Proof. pose proof table_covering as H. rewrite forallb_forall in H. exact (H s). Qed.

(** ... and dropping a saved key from an entry breaks it: e.g. the Normal family without its clock
    (the defect repaired in /repo), or Sivia-Skilling without its acceptance counter *)
Example normal_without_nsteps_not_covering :
  covering {| f_name := "normal"; f_dynamic := f_dynamic normal_family; f_saved := [gen]; f_derived := []; f_transient := [] |} = false.
Proof. vm_compute. reflexivity. Qed.
