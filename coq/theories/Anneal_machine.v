(** The dynamically annealed ladder as a function of the sweeps a parallel-tempered chain has made:
    [DynamicalAnnealer.__call__] runs at the end of every sweep with the acceptance ratios that sweep
    just wrote and t = iteration // swap_interval (epsie/chain/ptchain.py).  The machine records every
    sweep in its ghost field [sweeps], so the ladder is a fold over it. *)
From Coq Require Import ZArith List.
From Epsie Require Import Base Num Ladder Machine.
Import ListNotations.

Section AM.
  Context {T : Type} `{Num T}.
  Definition ladder_after (nu tau : T) (swap_interval : nat) (st0 : @lstate T)
             (sweeps : list (nat * list nat * list T)) : @lstate T :=
    fold_left (fun st '(it, _, ars) => lcall nu tau (nofZ (Z.of_nat (it / swap_interval))) st ars) sweeps st0.
  Definition ladder_of (nu tau : T) (st0 : @lstate T) (p : ptchain T) : @lstate T :=
    ladder_after nu tau (si T p) st0 (sweeps T p).
End AM.
