(** The generated rendering of the source's integer decision logic ([Gen/Src.v], written by
    tools/py2coq.py from the current /repo on every run) equals the hand-written model, for ALL
    inputs.  When the source changes one of these decisions, the corresponding lemma stops
    compiling.  This file: the adaptation windows (C13). *)
From Coq Require Import ZArith Bool Lia List.
From Coq Require Import ZifyBool ZifyNat.
From Epsie Require Import Base Num Adapt AdaptM Gen.Src.
Ltac Zify.zify_post_hook ::= Z.to_euclidean_division_equations.
Local Open Scope Z_scope.

(** ** adaptation windows (C13): the guard of each [_update], and - by the structure check of the
    translator - nothing in [_update] happens outside it *)
Section Windows.
  Context {T : Type} `{Num T}.
  Ltac window := intros; unfold src_veitch_window, src_at_window, src_eig_window, src_kappa_window, veitch_window, at_window, rm_window,
                                atf_window, atc_window, atcf_window, src_nsteps, dkZ; cbv zeta; lia.
  Lemma src_veitch_window_tie (p : @veitch T) k n :
    src_veitch_window (v_T p) k n (v_start p) = veitch_window p (src_nsteps k n).
  Proof. window. Qed.
  Lemma src_at_window_tie (p : @at_state T) k n :
    src_at_window (a_T p) k n (a_start p) = at_window p (src_nsteps k n).
  Proof. window. Qed.
  Lemma src_atf_window_tie (p : @atf_state T) k n :
    src_at_window (f_T p) k n (f_start p) = atf_window p (src_nsteps k n).
  Proof. window. Qed.
  Lemma src_atc_window_tie (p : @atc_state T) k n :
    src_at_window (c_T p) k n (c_start p) = atc_window p (src_nsteps k n).
  Proof. window. Qed.
  Lemma src_atcf_window_tie (p : @atcf_state T) k n :
    src_at_window (g_T p) k n (g_start p) = atcf_window p (src_nsteps k n).
  Proof. window. Qed.
  Lemma src_eig_window_tie (p : @rm_state T) k n :
    src_eig_window (r_T p) k n (r_start p) = rm_window p (src_nsteps k n).
  Proof. window. Qed.
  Lemma src_kappa_window_tie (p : @rm_state T) k n :
    src_kappa_window (r_T p) k n (r_start p) = rm_window p (src_nsteps k n).
  Proof. window. Qed.
End Windows.

