(** The numeric temperature-swap sweep of [ParallelTemperedChain.swap_temperatures]
    (epsie/chain/ptchain.py:521-567), written once over the numeric signature:
    the loop as the code has it (index array, carried [loglk], a uniform consumed only
    when logar <= 0), and its specification as a fold of adjacent-exchange
    Metropolis kernels over an explicit configuration of occupants. *)
From Coq Require Import List.
From Epsie Require Import Base Num.
Import ListNotations.
Local Open Scope num_scope.

Section SweepNum.
  Context {T : Type} `{Num T}.

  (** decision for one pair: logar > 0 -> swap with ar = 1 and no draw; else ar = exp(logar), swap iff u <= ar *)
  Definition swap_decide (logar u : T) : bool * T * bool :=
    if nltb nzero logar then (true, none, false)
    else let ar := nexp logar in (nleb u ar, ar, true).

  Definition pair_logar (betas : list T) (tj : nat) (loglj loglk : T) : T :=
    (nth (S tj) betas nzero - nth tj betas nzero) * (loglj - loglk).     (* dbetas[tj] * (loglj - loglk) *)

  Definition swap2 (idx : list nat) (tj : nat) : list nat :=
    upd (upd idx (S tj) (nth tj idx 0)) tj (nth (S tj) idx 0).

  (** the code: pairs (tk-1, tk) for tk = n-1 .. 1 *)
  Fixpoint sweep_code (betas logls : list T) (tk : nat) (idx : list nat) (loglk : T) (us ars : list T)
    : list nat * list T * list T :=
    match tk with
    | O => (idx, ars, us)
    | S tj =>
        let loglj := nth tj logls nzero in
        let logar := pair_logar betas tj loglj loglk in
        if nltb nzero logar
        then sweep_code betas logls tj (swap2 idx tj) loglk us (upd ars tj none)
        else match us with
             | [] => (idx, ars, [])                       (* ran out of scripted uniforms *)
             | u :: us' =>
                 let ar := nexp logar in
                 if nleb u ar
                 then sweep_code betas logls tj (swap2 idx tj) loglk us' (upd ars tj ar)
                 else sweep_code betas logls tj idx loglj us' (upd ars tj ar)
             end
    end.

  Definition sweep (betas logls : list T) (us : list T) : list nat * list T * list T :=
    let n := length logls in
    sweep_code betas logls (n - 1) (seq 0 n) (nth (n - 1) logls nzero) us (repeat nzero (n - 1)).

  (** the specification: [c] says which level's state occupies each slot; each pair is an
      exchange proposal between the occupants of adjacent slots *)
  Fixpoint sweep_spec (betas logls : list T) (tk : nat) (c : list nat) (us ars : list T)
    : list nat * list T * list T :=
    match tk with
    | O => (c, ars, us)
    | S tj =>
        let la := nth (nth tj c 0) logls nzero in          (* occupant of the colder slot *)
        let lb := nth (nth tk c 0) logls nzero in          (* occupant of the hotter slot *)
        let logar := pair_logar betas tj la lb in
        if nltb nzero logar
        then sweep_spec betas logls tj (swap2 c tj) us (upd ars tj none)
        else match us with
             | [] => (c, ars, [])
             | u :: us' =>
                 let ar := nexp logar in
                 if nleb u ar
                 then sweep_spec betas logls tj (swap2 c tj) us' (upd ars tj ar)
                 else sweep_spec betas logls tj c us' (upd ars tj ar)
             end
    end.
End SweepNum.
