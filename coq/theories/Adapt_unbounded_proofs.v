(** Known finding D19, formally: the scale of the Robbins-Monro adapted families (Andrieu-Thoms, adaptive
    eigenvector) has no bound that is uniform in the adaptation duration - under sustained acceptance the
    log-scale exceeds any given bound before the window closes, for a long enough duration. *)
From Coq Require Import Reals Lra Lia ZArith List.
From Epsie Require Import Base Num NumR Adapt Adapt_proofs.
Local Open Scope R_scope.

(** the Robbins-Monro gain dk^(-0.6) - T^(-0.6) over the first quarter of the window *)
Lemma rm_factor_quarter (dk T : Z) : (1 <= dk)%Z -> (4 * dk <= T)%Z ->
  (1 - exp (- (6 / 10) * ln 4)) * exp (- (6 / 10) * ln (IZR dk)) <= rm_factor dk (exp (- (6 / 10) * ln (IZR T))).
Proof.
  intros Hd HT. unfold rm_factor, npow, n06, nten. cbn [nsub nexp nmul nopp ndiv nln nofZ NumReal].
  assert (Hdk : 0 < IZR dk) by (apply IZR_lt; lia).
  assert (HT' : 4 * IZR dk <= IZR T). { rewrite <- mult_IZR. apply IZR_le. exact HT. }
  assert (Hln : ln 4 + ln (IZR dk) <= ln (IZR T)).
  { rewrite <- ln_mult by lra. destruct (Rle_lt_or_eq_dec _ _ HT') as [Hlt|Heq]; [left; apply ln_increasing; lra|rewrite Heq; lra]. }
  replace (- (6 / 10) * ln (IZR dk)) with (- (IZR 6 / IZR 10) * ln (IZR dk)) by (simpl; lra).
  assert (E : exp (- (6 / 10) * ln (IZR T)) <= exp (- (6 / 10) * ln 4) * exp (- (6 / 10) * ln (IZR dk))).
  { rewrite <- exp_plus. destruct (Rle_lt_or_eq_dec _ _ Hln) as [Hlt|Heq].
    - left. apply exp_increasing. nra.
    - right. f_equal. rewrite <- Heq. lra. }
  replace (- (IZR 6 / IZR 10) * ln (IZR dk)) with (- (6 / 10) * ln (IZR dk)) by (simpl; lra).
  nra.
Qed.

(** always-accepted history (acceptance ratio 1) from proposal step [start+1] on *)
Definition accept_run (p : @rm_state R) (m : nat) : @rm_state R :=
  fold_left (fun q j => eig_update q (r_start p + Z.of_nat j)%Z 1) (seq 1 m) p.

Lemma eig_update_static (q : @rm_state R) n ar :
  r_T (eig_update q n ar) = r_T q /\ r_start (eig_update q n ar) = r_start q
  /\ r_target (eig_update q n ar) = r_target q /\ r_decayc (eig_update q n ar) = r_decayc q.
Proof. unfold eig_update. destruct (rm_window q n); cbn; auto. Qed.

Lemma accept_run_lower (p : @rm_state R) (m : nat) :
  r_decayc p = exp (- (6 / 10) * ln (IZR (r_T p))) -> 0 < r_target p < 1 -> (4 * (Z.of_nat m + 1) <= r_T p)%Z ->
  let q := accept_run p m in
  r_T q = r_T p /\ r_start q = r_start p /\ r_target q = r_target p /\ r_decayc q = r_decayc p
  /\ r_log p + INR m * ((1 - r_target p) * ((1 - exp (- (6 / 10) * ln 4)) * exp (- (6 / 10) * ln (IZR (Z.of_nat m + 1))))) <= r_log q.
Proof.
  intros Hdec Ht. induction m as [|m IH]; intros HT; cbn zeta.
  - unfold accept_run. cbn. repeat split; auto. lra.
  - assert (HT' : (4 * (Z.of_nat m + 1) <= r_T p)%Z) by lia.
    specialize (IH HT'). cbn zeta in IH. destruct IH as (E1 & E2 & E3 & E4 & IH).
    unfold accept_run in *. rewrite seq_S, fold_left_app. cbn [fold_left].
    set (q := fold_left (fun q j => eig_update q (r_start p + Z.of_nat j)%Z 1) (seq 1 m) p) in *.
    destruct (eig_update_static q (r_start p + Z.of_nat (1 + m))%Z 1) as (F1 & F2 & F3 & F4).
    repeat split; try congruence.
    assert (Hw : rm_window q (r_start p + Z.of_nat (1 + m))%Z = true).
    { unfold rm_window, dkZ. rewrite E1, E2. apply andb_true_intro. split; apply Z.ltb_lt; lia. }
    unfold eig_update. rewrite Hw. cbn [r_log nadd nmul nsub NumReal]. rewrite E2, E3, E4, Hdec.
    replace (dkZ (r_start p + Z.of_nat (1 + m)) (r_start p)) with (Z.of_nat m + 2)%Z by (unfold dkZ; lia).
    pose proof (rm_factor_quarter (Z.of_nat m + 2) (r_T p) ltac:(lia) ltac:(lia)) as Hq.
    set (c := 1 - exp (- (6 / 10) * ln 4)) in *.
    assert (Hc : 0 < c). { unfold c. assert (exp (- (6 / 10) * ln 4) < 1); [|lra]. rewrite <- exp_0. apply exp_increasing.
      assert (0 < ln 4) by (rewrite <- ln_1; apply ln_increasing; lra). nra. }
    (* earlier increments were bounded below with the exponent at m+1; the exponent at m+2 is smaller *)
    assert (Hmono : exp (- (6 / 10) * ln (IZR (Z.of_nat (S m) + 1))) <= exp (- (6 / 10) * ln (IZR (Z.of_nat m + 1)))).
    { assert (Hl : ln (IZR (Z.of_nat m + 1)) <= ln (IZR (Z.of_nat (S m) + 1))).
      { assert (0 < IZR (Z.of_nat m + 1)) by (apply IZR_lt; lia).
        assert (IZR (Z.of_nat m + 1) < IZR (Z.of_nat (S m) + 1)) by (apply IZR_lt; lia). left. apply ln_increasing; lra. }
      destruct (Rle_lt_or_eq_dec _ _ Hl) as [Hlt|Heq]; [left; apply exp_increasing; nra|rewrite Heq; lra]. }
    replace (Z.of_nat (S m) + 1)%Z with (Z.of_nat m + 2)%Z in * by lia.
    rewrite S_INR.
    set (e1 := exp (- (6 / 10) * ln (IZR (Z.of_nat m + 1)))) in *.
    set (e2 := exp (- (6 / 10) * ln (IZR (Z.of_nat m + 2)))) in *.
    set (f := rm_factor (Z.of_nat m + 2) (exp (- (6 / 10) * ln (IZR (r_T p))))) in *.
    assert (0 <= INR m) by apply pos_INR. assert (0 < e2) by apply exp_pos.
    assert (H1t : 0 < 1 - r_target p) by lra.
    assert (INR m * ((1 - r_target p) * (c * e2)) <= INR m * ((1 - r_target p) * (c * e1))).
    { apply Rmult_le_compat_l; [assumption|]. apply Rmult_le_compat_l; [lra|]. apply Rmult_le_compat_l; lra. }
    assert ((1 - r_target p) * (c * e2) <= f * (1 - r_target p)) by nra.
    lra.
Qed.

(** the scale of the Robbins-Monro families has no bound that is uniform in the adaptation duration:
    for every bound there is a duration for which the always-accepted history (what a flat
    bounded target, or a level at beta = 0, produces) carries the log-scale beyond it before the
    window closes *)
Theorem rm_scale_unbounded (target r0 M : R) : 0 < target < 1 ->
  exists (T : Z) (m : nat),
    let p := {| r_log := r0; r_T := T; r_target := target; r_start := 1; r_decayc := exp (- (6 / 10) * ln (IZR T)) |} in
    (1 < T)%Z /\ M < r_log (accept_run p m).
Proof.
  intros Ht.
  set (c := 1 - exp (- (6 / 10) * ln 4)).
  assert (Hc : 0 < c). { unfold c. assert (exp (- (6 / 10) * ln 4) < 1); [|lra]. rewrite <- exp_0. apply exp_increasing.
    assert (0 < ln 4) by (rewrite <- ln_1; apply ln_increasing; lra). nra. }
  set (k := (1 - target) * c / 2). assert (Hk : 0 < k) by (unfold k; apply Rmult_lt_0_compat; [nra|lra]).
  (* y with k (1 + 0.4 y) > M - r0 and y >= 1 *)
  set (y := Rmax 1 ((M - r0) / k / (4 / 10))).
  assert (Hy1 : 1 <= y) by apply Rmax_l.
  assert (Hy2 : (M - r0) / k / (4 / 10) <= y) by apply Rmax_r.
  (* an integer N >= exp y (>= e > 2) *)
  set (Nz := up (exp y)). destruct (archimed (exp y)) as [HN1 _]. fold Nz in HN1.
  assert (Hexp : 2 < exp y). { pose proof (exp_ineq1 y ltac:(lra)). lra. }
  assert (HNz : (3 <= Nz)%Z). { assert (H2 : IZR 2 < IZR Nz) by lra. apply lt_IZR in H2. lia. }
  set (m := Z.to_nat (Nz - 1)). assert (Hm : (Z.of_nat m + 1 = Nz)%Z) by (unfold m; lia).
  exists (4 * Nz)%Z, m. cbn zeta. split; [lia|].
  set (p := {| r_log := r0; r_T := 4 * Nz; r_target := target; r_start := 1; r_decayc := exp (- (6 / 10) * ln (IZR (4 * Nz))) |}).
  destruct (accept_run_lower p m eq_refl Ht ltac:(cbn [r_T p]; lia)) as (_ & _ & _ & _ & Hlow).
  cbn [r_log r_target p] in Hlow. fold c in Hlow. rewrite Hm in Hlow.
  eapply Rlt_le_trans; [|exact Hlow].
  (* INR m * Nz^(-0.6) >= Nz^0.4 / 2 >= (1 + 0.4 ln Nz) / 2 *)
  assert (HNpos : 0 < IZR Nz) by (apply IZR_lt; lia).
  assert (Em : INR m = IZR Nz - 1). { rewrite INR_IZR_INZ. replace (Z.of_nat m) with (Nz - 1)%Z by lia. rewrite minus_IZR. lra. }
  assert (Hhalf : IZR Nz / 2 <= INR m). { rewrite Em. assert (3 <= IZR Nz) by (apply IZR_le with (n := 3%Z); lia). lra. }
  assert (Epow : IZR Nz * exp (- (6 / 10) * ln (IZR Nz)) = exp ((4 / 10) * ln (IZR Nz))).
  { transitivity (exp (ln (IZR Nz)) * exp (- (6 / 10) * ln (IZR Nz))); [now rewrite (exp_ln (IZR Nz) HNpos)|].
    rewrite <- exp_plus. f_equal. lra. }
  assert (Hln : y <= ln (IZR Nz)). { rewrite <- (ln_exp y). left. apply ln_increasing; [apply exp_pos|lra]. }
  assert (Hge : 1 + (4 / 10) * y <= exp ((4 / 10) * ln (IZR Nz))).
  { assert (0 < (4 / 10) * ln (IZR Nz)) by nra. pose proof (exp_ineq1 ((4 / 10) * ln (IZR Nz)) ltac:(lra)). nra. }
  set (e6 := exp (- (6 / 10) * ln (IZR Nz))) in *. assert (0 < e6) by apply exp_pos.
  assert (Hprod : (1 + (4 / 10) * y) / 2 <= INR m * e6).
  { assert (IZR Nz / 2 * e6 <= INR m * e6) by (apply Rmult_le_compat_r; lra). lra. }
  (* k (1 + 0.4 y) > M - r0 *)
  assert (Hk2 : M - r0 < k * (1 + (4 / 10) * y)).
  { assert ((M - r0) / k / (4 / 10) * (4 / 10) * k = M - r0) by (field; lra).
    assert ((M - r0) / k / (4 / 10) * (4 / 10) * k <= y * (4 / 10) * k) by (apply Rmult_le_compat_r; [lra|apply Rmult_le_compat_r; lra]). nra. }
  unfold k in Hk2.
  assert (INR m * ((1 - target) * (c * e6)) = (1 - target) * c * (INR m * e6)) by ring.
  assert ((1 - target) * c * ((1 + 4 / 10 * y) / 2) <= (1 - target) * c * (INR m * e6)).
  { apply Rmult_le_compat_l; [nra|exact Hprod]. }
  lra.
Qed.
