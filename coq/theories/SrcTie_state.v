(** Source tie for the proposal families' [state] / [set_state] (C05).  [Gen/SrcState.v] is written by
    tools/py2coq_state.py from the current /repo on every run: per family, which attribute is stored
    under which key of the state dictionary, and which attribute [set_state] assigns each key to -
    exactly (a computed property, or an expression around [state[key]], is rendered as an attribute
    that no table entry has).  Here: both relations ARE the [f_saved] relation of the family table
    of [PropState.v], about which [restore_agrees] is proved.  The domain is finite, so evaluating
    the boolean comparison is a proof. *)
From Coq Require Import String List Bool Arith.
From Epsie Require Import PropState Gen.SrcState.
Import ListNotations.
Open Scope string_scope.

Definition pair_eqb (a b : string * string) : bool := String.eqb (fst a) (fst b) && String.eqb (snd a) (snd b).
Definition pmem (x : string * string) (l : list (string * string)) : bool := existsb (pair_eqb x) l.
(** the same finite relation (as sets, and of the same size) *)
Definition same_pairs (a b : list (string * string)) : bool :=
  forallb (fun x => pmem x b) a && forallb (fun x => pmem x a) b && Nat.eqb (length a) (length b).

(** (what [state] stores, what [set_state] assigns, the table entry) for every class of /repo that defines them *)
Definition src_families : list (list (string * string) * list (string * string) * famspec) :=
  [ (src_saved_normal, src_assigned_normal, normal_family);
    (src_saved_solid_angle, src_assigned_solid_angle, normal_family);
    (src_saved_eigenvector, src_assigned_eigenvector, eigen_family);
    (src_saved_veitch, src_assigned_veitch, veitch_family);
    (src_saved_ss_diag, src_assigned_ss_diag, ss_diag_family);
    (src_saved_ss_full, src_assigned_ss_full, ss_full_family);
    (src_saved_at_diag, src_assigned_at_diag, at_diag_family);
    (src_saved_at_full, src_assigned_at_full, at_full_family);
    (src_saved_adaptive_eigenvector, src_assigned_adaptive_eigenvector, adaptive_eigen_family);
    (src_saved_adaptive_solid_angle, src_assigned_adaptive_solid_angle, adaptive_kappa_family) ].

Definition family_matches (x : list (string * string) * list (string * string) * famspec) : bool :=
  let '(s, a, f) := x in same_pairs s (f_saved f) && same_pairs a (f_saved f).

Lemma src_families_match : forallb family_matches src_families = true.
Proof. vm_compute. reflexivity. Qed.

Lemma table_has_sources :
  forallb (fun f => existsb (fun x => String.eqb (f_name f) (f_name (snd x))) src_families) table = true.
Proof. vm_compute. reflexivity. Qed.

(** what the comparison means: membership in one relation is membership in the other *)
Lemma pmem_In x l : pmem x l = true <-> In x l.
Proof.
  unfold pmem. rewrite existsb_exists. split.
  - intros [y [Hy He]]. unfold pair_eqb in He. apply andb_true_iff in He as [H1 H2].
    apply String.eqb_eq in H1, H2. destruct x, y; cbn in *; subst; exact Hy.
  - intros H. exists x. split; [exact H|]. unfold pair_eqb. now rewrite !String.eqb_refl.
Qed.

Lemma same_pairs_spec a b : same_pairs a b = true -> forall x, In x a <-> In x b.
Proof.
  unfold same_pairs. intros H x. apply andb_true_iff in H as [H _]. apply andb_true_iff in H as [Hab Hba].
  rewrite forallb_forall in Hab, Hba. split; intros Hx.
  - apply pmem_In, Hab, Hx.
  - apply pmem_In, Hba, Hx.
Qed.

Lemma src_family_relations s a f :
  In (s, a, f) src_families -> forall key attr, (In (key, attr) s <-> In (key, attr) (f_saved f)) /\ (In (key, attr) a <-> In (key, attr) (f_saved f)).
Proof.
  intros Hin key attr. pose proof src_families_match as H. rewrite forallb_forall in H. specialize (H _ Hin).
  cbn in H. apply andb_true_iff in H as [Hs Ha]. split; [apply (same_pairs_spec _ _ Hs) | apply (same_pairs_spec _ _ Ha)].
Qed.
