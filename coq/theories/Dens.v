(** Reported densities and jump maps of the proposal families, written ONCE over the numeric
    signature (epsie/proposals/{normal,bounded_normal,angular,discrete,eigenvector,
    bounded_eigenvector,solid_angle,birth}.py).  Functions outside the signature (normal masses,
    trigonometry, python's modulo, rounding to integers) are parameters: the reals of the theorem
    layer and the binary64 library of the execution layer are plugged in separately. *)
From Coq Require Import ZArith List Bool.
From Epsie Require Import Num.
Import ListNotations.
Local Open Scope num_scope.

Section Dens.
  Context {T : Type} `{Num T}.
  Variable mass : T -> T -> T.        (* mass of (a, b] under the standard normal law *)
  Variable lnsqrt2pi : T.             (* ln sqrt(2 pi) *)
  Variable pi : T.
  Variable pymod : T -> T -> T.       (* python's float % *)
  Variable fsin fcos facos : T -> T.
  Variable fatan2 : T -> T -> T.
  Variable rnd_even : T -> Z.         (* int(round(z, 0)): round half to even *)
  Variable floorceil : T -> Z.        (* int(sign(z) * ceil(|z|)) *)

  Definition half : T := none / ntwo.
  Definition lnphi (z : T) : T := - ((z * z) / ntwo) - lnsqrt2pi.      (* scipy _norm_logpdf *)
  Definition clip (a b x : T) : T := nmax a (nmin b x).
  (** scipy truncnorm.cdf(x1) - truncnorm.cdf(x0) for shape (a, b), in standard units *)
  Definition tmass (a b u0 u1 : T) : T := mass (clip a b u0) (clip a b u1) / mass a b.
  (** scipy truncnorm.logpdf in standard units (shape a, b; scale std) *)
  Definition tlogpdf (a b std z : T) : option T :=
    if nltb z a || nltb b z then None else Some ((lnphi z - nln std) - nln (mass a b)).

  (** python: logp = 0; for ...: logp += term  -- with an early return of -inf *)
  Fixpoint sum_opt (terms : list (option T)) (acc : T) : option T :=
    match terms with
    | [] => Some acc
    | None :: _ => None
    | Some t :: r => sum_opt r (acc + t)
    end.

  (** ** NormalDiscrete *)
  Definition nd_logpmf1 (succ : bool) (std : T) (dx : Z) : option T :=
    let d := nofZ (Z.abs dx) in
    if succ then Some (nln (mass ((d - half) / std) ((d + half) / std)))
    else if (dx =? 0)%Z then None
    else let dp := mass ((d - none) / std) (d / std) in
         if neqb dp nzero then None else Some (nln dp).
  Definition nd_jump1 (succ : bool) (x : Z) (z : T) : Z := (x + (if succ then rnd_even z else floorceil z))%Z.
  (** without successive jumps a draw that would propose the current integer (z = 0.0) is redrawn *)
  Definition nd_ok (succ : bool) (x y : Z) : bool := succ || negb (y =? x)%Z.
  Fixpoint nd_jump (succ : bool) (x : Z) (draws : list T) : option (Z * nat) :=
    match draws with
    | [] => None
    | z :: r => let y := nd_jump1 succ x z in
                if nd_ok succ x y then Some (y, 1%nat)
                else match nd_jump succ x r with Some (v, n) => Some (v, S n) | None => None end
    end.

  (** ** BoundedDiscrete (integer bounds lo <= hi) *)
  Definition bd_logpmf1 (succ : bool) (lo hi : Z) (std : T) (mu x : Z) : option T :=
    if succ then
      let a := (nofZ (lo - mu) - half) / std in
      let b := (nofZ (hi - mu) + half) / std in
      Some (nln (tmass a b ((nofZ (x - mu) - half) / std) ((nofZ (x - mu) + half) / std)))
    else if (x =? mu)%Z then None
    else
      let a := nofZ (lo - mu) / std in
      let b := nofZ (hi - mu) / std in
      let '(x0, x1) := if (mu <? x)%Z then ((x - 1)%Z, x) else (x, (x + 1)%Z) in
      Some (nln (tmass a b (nofZ (x0 - mu) / std) (nofZ (x1 - mu) / std))).
  (** rejection loop: the first draw whose image lies within the bounds; None = draws exhausted *)
  Fixpoint bd_jump1 (succ : bool) (lo hi x : Z) (draws : list T) : option (Z * nat) :=
    match draws with
    | [] => None
    | z :: r => let y := nd_jump1 succ x z in
                if (lo <=? y)%Z && (y <=? hi)%Z && nd_ok succ x y then Some (y, 1%nat)
                else match bd_jump1 succ lo hi x r with Some (v, n) => Some (v, S n) | None => None end
    end.

  (** ** BoundedNormal *)
  Definition bn_logpdf1 (lo hi std mu x : T) : option T :=
    tlogpdf ((lo - mu) / std) ((hi - mu) / std) std ((x - mu) / std).
  Fixpoint bn_jump1 (lo hi : T) (draws : list T) : option (T * nat) :=
    match draws with
    | [] => None
    | y :: r => if nleb lo y && nleb y hi then Some (y, 1%nat)
                else match bn_jump1 lo hi r with Some (v, n) => Some (v, S n) | None => None end
    end.

  (** a bounded proposal asked to jump from outside its bounds refuses (ValueError) *)
  Inductive jres (A : Type) := Refused | Exhausted | Jumped (a : A) (n : nat).
  Arguments Refused {A}. Arguments Exhausted {A}. Arguments Jumped {A} a n.
  Definition bn_jump_from (lo hi x : T) (draws : list T) : jres T :=
    if nleb lo x && nleb x hi
    then match bn_jump1 lo hi draws with Some (v, n) => Jumped v n | None => Exhausted end
    else Refused.
  Definition bd_jump_from (succ : bool) (lo hi x : Z) (draws : list T) : jres Z :=
    if (lo <=? x)%Z && (x <=? hi)%Z
    then match bd_jump1 succ lo hi x draws with Some (v, n) => Jumped v n | None => Exhausted end
    else Refused.

  (** ** Normal (diagonal): scipy norm(0, std).logpdf(givenx - xi) *)
  Definition n_logpdf1 (std xi givenx : T) : T := lnphi ((givenx - xi) / std) - nln std.

  (** ** Angular (in units of pi internally) *)
  Definition ang_shift (xi givenx : T) : T :=
    let inv := none / pi in
    let g := pymod (givenx * inv) ntwo in
    pymod (pymod (xi * inv) ntwo + (none - g)) ntwo.
  Definition ang_logpdf1 (std xi givenx : T) : option T :=
    let s := std * (none / pi) in
    let b := none / s in
    tlogpdf (- b) b s ((ang_shift xi givenx - none) / s).
  (** the accepted draw z (|z| <= 1, in units of pi) moves x to ((x/pi + z) mod 2) pi *)
  Definition ang_jump1 (x z : T) : T := pymod (z + x * (none / pi)) ntwo * pi.
  Fixpoint ang_draw (draws : list T) : option (T * nat) :=
    match draws with
    | [] => None
    | z :: r => if nltb none (nmax z (- z)) then match ang_draw r with Some (v, n) => Some (v, S n) | None => None end
                else Some (z, 1%nat)
    end.

  (** ** Eigenvector: 1-d normal jump of scale s along a unit direction *)
  Definition eig_logpdf (s dx : T) : T := lnphi (dx / s) - nln s.
  Definition eig_jump (x v : list T) (dx : T) : list T := map (fun '(xi, vi) => xi + dx * vi) (combine x v).
  (** BoundedEigenvector: truncated along the segment of the line inside the box; mu, xi = distances
      of the two points from the first intersection, width = length of the segment *)
  Definition beig_logpdf (s mu xi width : T) : option T :=
    tlogpdf (- mu / s) ((width - mu) / s) s ((xi - mu) / s).

  (** ** IsotropicSolidAngle (von Mises-Fisher on the sphere) *)
  Definition s2c (phi theta : T) : T * T * T :=
    let st := fsin theta in (st * fcos phi, st * fsin phi, fcos theta).
  Definition dot3 (a b : T * T * T) : T :=
    let '(a1, a2, a3) := a in let '(b1, b2, b3) := b in (a1 * b1 + a2 * b2) + a3 * b3.
  Definition vmf_norm (kappa : T) (sinh_kappa : T) : T := kappa / ((nofZ 4 * pi) * sinh_kappa).
  Definition vmf_logpdf (kappa norm : T) (xi givenx : T * T) : T :=
    nln norm + kappa * dot3 (s2c (fst givenx) (snd givenx)) (s2c (fst xi) (snd xi)).
  (** polar angle of a draw from the inverse cdf; azimuth = 2 pi u1 *)
  Definition vmf_theta (kappa norm u : T) : T :=
    facos (nln (nexp kappa - (kappa * u) / ((ntwo * pi) * norm)) / kappa).
  Definition rotmat (mu : T * T * T) : list (list T) :=
    let '(m1, m2, m3) := mu in
    let beta := facos m3 in
    let rho := nsqrt (m1 * m1 + m2 * m2) in
    let g0 := if nltb nzero rho then facos (m1 / rho) else nzero in
    let gamma := if nltb m2 nzero then ntwo * pi - g0 else g0 in
    let sb := fsin beta in let sg := fsin gamma in let cb := fcos beta in let cg := fcos gamma in
    [[cb * cg; - sg; sb * cg]; [cb * sg; cg; sb * sg]; [- sb; nzero; cb]].
  Definition matvec (m : list (list T)) (v : T * T * T) : T * T * T :=
    let '(v1, v2, v3) := v in
    let row r := match r with [a; b; c] => (a * v1 + b * v2) + c * v3 | _ => nzero end in
    match m with [r1; r2; r3] => (row r1, row r2, row r3) | _ => (nzero, nzero, nzero) end.
  Definition c2s (v : T * T * T) : T * T :=
    let '(x, y, z) := v in
    let p := fatan2 y x in
    ((if nltb p nzero then p + ntwo * pi else p), facos z).
  Definition vmf_jump (kappa norm : T) (from : T * T) (u1 u2 : T) : T * T :=
    let mu := s2c (fst from) (snd from) in
    let xi := s2c (u1 * (ntwo * pi)) (vmf_theta kappa norm u2) in
    c2s (matvec (rotmat mu) xi).

  (** ** NestedTransdimensional._logpdf: index-jump term, birth terms only when the dimension grows and
      only for the newly active components, in-model terms for components active on both sides.
      [cur]/[prop]: active sets of the conditioning point and of the evaluated point;
      [births], [inmodel]: per component, the birth log-density of the evaluated point's values
      and the in-model log-density (None = -inf). *)
  Fixpoint td_terms (dk_pos : bool) (cur prop : list bool) (births inmodel : list (option T)) : list (option T) :=
    match cur, prop, births, inmodel with
    | c :: cur', p :: prop', b :: births', m :: inmodel' =>
        let rest := td_terms dk_pos cur' prop' births' inmodel' in
        if negb c && p && dk_pos then b :: rest else rest
    | _, _, _, _ => []
    end.
  Fixpoint td_inmodel (cur prop : list bool) (inmodel : list (option T)) : list (option T) :=
    match cur, prop, inmodel with
    | c :: cur', p :: prop', m :: inmodel' =>
        let rest := td_inmodel cur' prop' inmodel' in if c && p then m :: rest else rest
    | _, _, _ => []
    end.
  Definition td_logpdf (index_term : option T) (dk : Z) (cur prop : list bool) (births inmodel : list (option T)) : option T :=
    match index_term with
    | None => None
    | Some it =>
        sum_opt (td_terms (0 <? dk)%Z cur prop births inmodel ++ td_inmodel cur prop inmodel) (nzero + it)
    end.

  (** ** birth distributions *)
  Definition ubirth_logpdf1 (lo hi x : T) : option T :=
    if nltb x lo || nltb hi x then None else Some (- nln (hi - lo)).     (* scipy uniform(loc, scale).logpdf *)
  Definition nbirth_logpdf1 (mu std x : T) : T := lnphi ((x - mu) / std) - nln std.
  Definition lnbirth_logpdf1 (mulog stdlog x : T) : option T :=
    if nleb x nzero then None else Some ((lnphi ((nln x - mulog) / stdlog) - nln stdlog) - nln x).
End Dens.
Arguments Refused {A}. Arguments Exhausted {A}. Arguments Jumped {A} a n.
