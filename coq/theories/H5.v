(** Model of the checkpoint byte-level contract (epsie/__init__.py:165-244).

    A file is a finite map group -> (dataset name -> dataset); a dataset is a
    one-dimensional array of 'S1' elements (one stored byte each) together with
    the fact whether it was created with [maxshape=(None,)] (resizable).
    [dump] is [dump_pickle_to_hdf] as the code is: create-or-resize, then a
    whole-slice assignment; [load] is [fp[dsetname][()].tobytes()].
    The element type is abstract ([B], with the fill value [zero] that h5py
    uses for new space), so the theorems hold for every byte alphabet. *)
From Epsie Require Import Base.

Inductive h5err := KeyError | ResizeError | ShapeError.
Inductive res (A : Type) := Ok (a : A) | Err (e : h5err).
Arguments Ok {A} a. Arguments Err {A} e.

Section H5.
  Variable B : Type.
  Variable zero : B.

  Record dset := { d_data : list B; d_resizable : bool }.
  Definition group := list (nat * dset).
  Definition file := list (nat * group).

  (** h5py: [create_dataset(name, shape=(n,), maxshape=(None,))] *)
  Definition create (n : nat) : dset := {| d_data := repeat zero n; d_resizable := true |}.
  (** h5py: [dset.resize((n,))]: only chunked/maxshape datasets; keeps the prefix, fills with zero *)
  Definition resize (d : dset) (n : nat) : res dset :=
    if d_resizable d
    then Ok {| d_data := firstn n (d_data d) ++ repeat zero (n - length (d_data d));
               d_resizable := true |}
    else Err ResizeError.
  (** h5py: [dset[:] = arr] with a 1-d array: shapes must agree *)
  Definition assign (d : dset) (b : list B) : res dset :=
    if Nat.eqb (length b) (length (d_data d))
    then Ok {| d_data := b; d_resizable := d_resizable d |}
    else Err ShapeError.

  Definition dump (f : file) (g n : nat) (b : list B) : res file :=
    match aget f g with
    | None => Err KeyError                        (* fp[path] *)
    | Some grp =>
        let rd :=
          match aget grp n with
          | None => Ok (create (length b))        (* dsetname not in fp *)
          | Some d => if Nat.eqb (length b) (length (d_data d)) then Ok d
                      else resize d (length b)    (* bdata.size != shape[0] *)
          end in
        match rd with
        | Err e => Err e
        | Ok d => match assign d b with
                  | Err e => Err e
                  | Ok d' => Ok (aset f g (aset grp n d'))
                  end
        end
    end.

  Definition load (f : file) (g n : nat) : res (list B) :=
    match aget f g with
    | None => Err KeyError
    | Some grp => match aget grp n with
                  | None => Err KeyError
                  | Some d => Ok (d_data d)
                  end
    end.

  (** operation sequences, for the correspondence and the refinement theorem *)
  Inductive op := Dump (g n : nat) (b : list B) | Load (g n : nat).
  Inductive outcome := ODone | OBytes (b : list B) | OErr (e : h5err).

  Definition step (f : file) (o : op) : file * outcome :=
    match o with
    | Dump g n b => match dump f g n b with
                    | Ok f' => (f', ODone)
                    | Err e => (f, OErr e)
                    end
    | Load g n => match load f g n with
                  | Ok b => (f, OBytes b)
                  | Err e => (f, OErr e)
                  end
    end.

  Fixpoint run (f : file) (ops : list op) : file * list outcome :=
    match ops with
    | [] => (f, [])
    | o :: t => let '(f1, r) := step f o in
                let '(f2, rs) := run f1 t in (f2, r :: rs)
    end.

  (** an empty file with the given groups already present *)
  Definition mkfile (groups : list nat) : file := map (fun g => (g, [])) groups.
End H5.

Arguments d_data {B} d. Arguments d_resizable {B} d.
Arguments Dump {B} g n b. Arguments Load {B} g n.
Arguments ODone {B}. Arguments OBytes {B} b. Arguments OErr {B} e.
