(** The adaptation updates of the adaptive proposal families, over the numeric signature:
    Veitch ([AdaptiveSupport._update], normal.py:318-339), Sivia-Skilling
    ([SSAdaptiveSupport._update], normal.py:477-503), Andrieu-Thoms with diagonal second
    moment and global scaling ([ATAdaptiveSupport._update], normal.py:696-729), the scale
    part of the adaptive eigenvector proposal (eigenvector.py:279-295) and the adaptive
    solid-angle proposal (solid_angle.py:292-302).  [nsteps] is the proposal's step count
    [_nsteps // jump_interval] at the time [_update] runs. *)
From Coq Require Import ZArith List Bool.
From Epsie Require Import Base Num.
Import ListNotations.
Local Open Scope num_scope.

Section Adapt.
  Context {T : Type} `{Num T}.

  Definition dkZ (nsteps start : Z) : Z := (nsteps - start + 1)%Z.
  Definition nten : T := nofZ 10.
  Definition ntenth : T := none / nten.                    (* the float 0.1 *)
  Definition n06 : T := nofZ 6 / nten.                     (* the float 0.6 *)

  Fixpoint map2 {A B C} (f : A -> B -> C) (l1 : list A) (l2 : list B) : list C :=
    match l1, l2 with
    | a :: t1, b :: t2 => f a b :: map2 f t1 t2
    | _, _ => []
    end.

  (** ** Veitch *)
  Record veitch := { v_std : list T; v_deltas : list T; v_T : Z; v_decay : T; v_target : T; v_start : Z }.

  Definition veitch_window (p : veitch) (nsteps : Z) : bool :=
    let dk := dkZ nsteps (v_start p) in (1 <=? dk)%Z && (dk <? v_T p)%Z.            (* 1 <= dk < duration *)

  Definition veitch_factor (p : veitch) (nsteps : Z) : T :=
    npow (nofZ (dkZ nsteps (v_start p))) (- v_decay p) - ntenth.                    (* dk**(-decay) - 0.1 *)

  Definition veitch_new_std (alpha d : T) (s delta : T) : T :=
    let n := s + ((alpha * d) * delta) / nten in
    if nltb n nzero then s else n.                                                  (* negative-width guard *)

  Definition veitch_update (p : veitch) (nsteps : Z) (accepted : bool) : veitch :=
    if veitch_window p nsteps then
      let d := veitch_factor p nsteps in
      let alpha := if accepted then none - v_target p else - v_target p in
      {| v_std := map2 (veitch_new_std alpha d) (v_std p) (v_deltas p);
         v_deltas := v_deltas p; v_T := v_T p; v_decay := v_decay p; v_target := v_target p; v_start := v_start p |}
    else p.

  (** ** Sivia-Skilling (diagonal) *)
  Record ss := { s_std : list T; s_nacc : Z; s_target : T; s_start : Z; s_cap : option T }.

  Definition ss_alpha (nacc niter : Z) (target : T) : T :=
    let rate := nofZ nacc / nofZ niter in
    if nltb target rate then nexp (none / nofZ nacc)
    else if nltb rate target then nexp ((- none) / nofZ (niter - nacc))
    else none.

  Definition list_max (l : list T) : T :=
    match l with [] => nzero | x :: t => fold_left nmax t x end.

  Definition ss_update (p : ss) (nsteps : Z) (accepted : bool) : ss :=
    let nacc := (s_nacc p + (if accepted then 1 else 0))%Z in
    let niter := (nsteps - (s_start p - 1) + 1)%Z in
    let alpha := nsqrt (ss_alpha nacc niter (s_target p)) in                        (* alpha ** 0.5 *)
    let mx := alpha * list_max (s_std p) in
    let ok := match s_cap p with None => true | Some cap => nleb mx cap end in
    {| s_std := if ok then map (fun s => s * alpha) (s_std p) else s_std p;
       s_nacc := nacc; s_target := s_target p; s_start := s_start p; s_cap := s_cap p |}.

  (** ** Andrieu-Thoms, diagonal second moment, global scaling *)
  Record at_state := { a_mean : list T; a_ucov : list T; a_loglam : T; a_std : list T;
                       a_T : Z; a_target : T; a_start : Z; a_decayc : T }.

  Definition at_window (p : at_state) (nsteps : Z) : bool :=
    let dk := dkZ nsteps (a_start p) in (1 <? dk)%Z && (dk <? a_T p)%Z.              (* 1 < dk < duration *)

  Definition rm_factor (dk : Z) (decayc : T) : T := npow (nofZ dk) (- n06) - decayc.   (* dk**(-0.6) - T**(-0.6) *)

  Definition at_update (p : at_state) (nsteps : Z) (ar : T) (x : list T) : at_state :=
    if at_window p nsteps then
      let d := rm_factor (dkZ nsteps (a_start p)) (a_decayc p) in
      let ll := a_loglam p + d * (ar - a_target p) in
      let df := map2 nsub x (a_mean p) in
      let mean := map2 (fun m f => m + d * f) (a_mean p) df in
      let ucov := map2 (fun u f => u + d * (f * f - u)) (a_ucov p) df in
      {| a_mean := mean; a_ucov := ucov; a_loglam := ll;
         a_std := map (fun u => nsqrt (nexp ll * u)) ucov;
         a_T := a_T p; a_target := a_target p; a_start := a_start p; a_decayc := a_decayc p |}
    else p.

  (** ** scale variable of the adaptive eigenvector / solid-angle proposals (Robbins-Monro on a log scale) *)
  Record rm_state := { r_log : T; r_T : Z; r_target : T; r_start : Z; r_decayc : T }.
  Definition rm_window (p : rm_state) (nsteps : Z) : bool :=
    let dk := dkZ nsteps (r_start p) in (1 <? dk)%Z && (dk <? r_T p)%Z.

  (** eigenvector: log_lambda += dk*(ar - target)  (widening with acceptance) *)
  Definition eig_update (p : rm_state) (nsteps : Z) (ar : T) : rm_state :=
    if rm_window p nsteps then
      {| r_log := r_log p + rm_factor (dkZ nsteps (r_start p)) (r_decayc p) * (ar - r_target p);
         r_T := r_T p; r_target := r_target p; r_start := r_start p; r_decayc := r_decayc p |}
    else p.

  (** solid angle: log_kappa += dk*(target - ar); kappa = exp(log_kappa) is a concentration (inverse width) *)
  Definition kappa_update (p : rm_state) (nsteps : Z) (ar : T) : rm_state :=
    if rm_window p nsteps then
      {| r_log := r_log p + rm_factor (dkZ nsteps (r_start p)) (r_decayc p) * (r_target p - ar);
         r_T := r_T p; r_target := r_target p; r_start := r_start p; r_decayc := r_decayc p |}
    else p.
  Definition kappa_of (p : rm_state) : T := nexp (r_log p).
End Adapt.
