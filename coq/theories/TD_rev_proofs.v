(** Transdimensional moves are reversible for prior x likelihood^beta divided by the number of
    ways of choosing the active components (C11). *)
From Coq Require Import Reals Lra Lia ZArith List Bool Binomial.
From Epsie Require Import Num NumR Dens MH MH_proofs.
Import ListNotations.
Local Open Scope R_scope.

(** number of ways of choosing n of N components *)
Definition Cb (N n : nat) : R := C N n.

Lemma Cb_pos N n : (n <= N)%nat -> 0 < Cb N n.
Proof.
  intros H. unfold Cb, C.
  apply Rmult_lt_0_compat; [apply INR_fact_lt_0|]. apply Rinv_0_lt_compat.
  apply Rmult_lt_0_compat; apply INR_fact_lt_0.
Qed.

(** choosing d of the N-k inactive components to switch on, and then d of the k+d active ones to
    switch off again, versus the sizes of the sub-model families: C(N-k,d) C(N,k) = C(k+d,d) C(N,k+d) *)
Theorem binomial_identity (N k d : nat) : (k + d <= N)%nat ->
  Cb (N - k) d * Cb N k = Cb (k + d) d * Cb N (k + d).
Proof.
  intros H. unfold Cb, C.
  replace (N - k - d)%nat with (N - (k + d))%nat by lia.
  replace (k + d - d)%nat with k by lia.
  pose proof (INR_fact_neq_0 N). pose proof (INR_fact_neq_0 k). pose proof (INR_fact_neq_0 d).
  pose proof (INR_fact_neq_0 (N - k)). pose proof (INR_fact_neq_0 (N - (k + d))). pose proof (INR_fact_neq_0 (k + d)).
  field. repeat split; assumption.
Qed.

(** The code's composite density omits the uniform choice of the components: with
    qt = qc / (number of subsets), the Hastings factor of the code equals the factor of the true
    composite law times C(x)/C(x') - growth by d from k active of N *)
Theorem hastings_factor_birth (N k d : nat) (qc_fwd qc_rev : R) : (k + d <= N)%nat -> 0 < qc_fwd -> 0 < qc_rev ->
  let qt_fwd := qc_fwd / Cb (N - k) d in          (* x -> x': choose d of the N-k inactive *)
  let qt_rev := qc_rev / Cb (k + d) d in          (* x' -> x: choose d of the k+d active *)
  qc_rev / qc_fwd = (Cb N k / Cb N (k + d)) * (qt_rev / qt_fwd).
Proof.
  intros H Hf Hr. cbn zeta.
  pose proof (binomial_identity N k d H) as B.
  pose proof (Cb_pos (N - k) d ltac:(lia)). pose proof (Cb_pos (k + d) d ltac:(lia)).
  pose proof (Cb_pos N k ltac:(lia)). pose proof (Cb_pos N (k + d) H).
  assert (E : Cb (N - k) d = Cb (k + d) d * Cb N (k + d) / Cb N k) by (rewrite <- B; field; lra).
  rewrite E. field. repeat split; lra.
Qed.

(** what the chain computes for a move that switches d components on (f = prior x likelihood^beta):
    e^logar = f(x') C(x) qt(x|x') / (f(x) C(x') qt(x'|x)) *)
Theorem acceptance_form_birth (N k d : nat) (p' L' p L beta qc_fwd qc_rev : R) :
  (k + d <= N)%nat -> 0 < p' -> 0 < L' -> 0 < p -> 0 < L -> 0 < qc_fwd -> 0 < qc_rev ->
  let qt_fwd := qc_fwd / Cb (N - k) d in
  let qt_rev := qc_rev / Cb (k + d) d in
  exp (mh_logar (ln p') (ln L') (ln p) (ln L) beta (Some (ln qc_rev, ln qc_fwd)))
  = ((p' * Rpower L' beta) * Cb N k * qt_rev) / ((p * Rpower L beta) * Cb N (k + d) * qt_fwd).
Proof.
  intros H Hp' HL' Hp HL Hf Hr. cbn zeta.
  rewrite (ratio_form p' L' p L beta qc_rev qc_fwd) by assumption.
  pose proof (hastings_factor_birth N k d qc_fwd qc_rev H Hf Hr) as F. cbn zeta in F.
  pose proof (Cb_pos (N - k) d ltac:(lia)). pose proof (Cb_pos (k + d) d ltac:(lia)).
  pose proof (Cb_pos N k ltac:(lia)). pose proof (Cb_pos N (k + d) H).
  assert (0 < Rpower L beta) by (unfold Rpower; apply exp_pos).
  assert (0 < Rpower L' beta) by (unfold Rpower; apply exp_pos).
  replace (p' * Rpower L' beta * qc_rev / (p * Rpower L beta * qc_fwd))
    with ((p' * Rpower L' beta) / (p * Rpower L beta) * (qc_rev / qc_fwd)) by (field; lra).
  rewrite F. field. repeat split; lra.
Qed.

(** ... and for a move that switches d components off (from k+d active to k) *)
Theorem acceptance_form_death (N k d : nat) (p' L' p L beta qc_fwd qc_rev : R) :
  (k + d <= N)%nat -> 0 < p' -> 0 < L' -> 0 < p -> 0 < L -> 0 < qc_fwd -> 0 < qc_rev ->
  let qt_fwd := qc_fwd / Cb (k + d) d in          (* x -> x': choose d of the k+d active *)
  let qt_rev := qc_rev / Cb (N - k) d in          (* x' -> x: choose d of the N-k inactive *)
  exp (mh_logar (ln p') (ln L') (ln p) (ln L) beta (Some (ln qc_rev, ln qc_fwd)))
  = ((p' * Rpower L' beta) * Cb N (k + d) * qt_rev) / ((p * Rpower L beta) * Cb N k * qt_fwd).
Proof.
  intros H Hp' HL' Hp HL Hf Hr. cbn zeta.
  rewrite (ratio_form p' L' p L beta qc_rev qc_fwd) by assumption.
  pose proof (binomial_identity N k d H) as B.
  pose proof (Cb_pos (N - k) d ltac:(lia)). pose proof (Cb_pos (k + d) d ltac:(lia)).
  pose proof (Cb_pos N k ltac:(lia)). pose proof (Cb_pos N (k + d) H).
  assert (0 < Rpower L beta) by (unfold Rpower; apply exp_pos).
  assert (0 < Rpower L' beta) by (unfold Rpower; apply exp_pos).
  assert (E : Cb (N - k) d = Cb (k + d) d * Cb N (k + d) / Cb N k) by (rewrite <- B; field; lra).
  rewrite E. field. repeat split; lra.
Qed.

(** with no change of dimension (d = 0) there is one way of choosing nothing: the ordinary ratio *)
Lemma Cb_zero n : Cb n 0 = 1.
Proof. unfold Cb, C. rewrite Nat.sub_0_r. simpl. field. apply INR_fact_neq_0. Qed.

(** detailed balance for g = f / C with the true composite law: g(x) qt(x'|x) a(x,x') = g(x') qt(x|x') a(x',x),
    where a = min(1, ratio) is what [mh_decide] accepts with *)
Theorem td_detailed_balance (gx gx' qf qr : R) : 0 < gx -> 0 < gx' -> 0 < qf -> 0 < qr ->
  gx * qf * Rmin 1 ((gx' * qr) / (gx * qf)) = gx' * qr * Rmin 1 ((gx * qf) / (gx' * qr)).
Proof.
  intros H1 H2 H3 H4.
  set (A := gx * qf). set (B := gx' * qr).
  assert (HA : 0 < A) by (unfold A; nra). assert (HB : 0 < B) by (unfold B; nra).
  destruct (Rle_dec A B) as [Hle|Hgt].
  - rewrite (Rmin_left 1 (B / A)). 2:{ apply (Rmult_le_reg_r A); [exact HA|]. unfold Rdiv. rewrite Rmult_assoc, Rinv_l; lra. }
    rewrite (Rmin_right 1 (A / B)). 2:{ apply (Rmult_le_reg_r B); [exact HB|]. unfold Rdiv. rewrite Rmult_assoc, Rinv_l; lra. }
    field. lra.
  - rewrite (Rmin_right 1 (B / A)). 2:{ apply (Rmult_le_reg_r A); [exact HA|]. unfold Rdiv. rewrite Rmult_assoc, Rinv_l; lra. }
    rewrite (Rmin_left 1 (A / B)). 2:{ apply (Rmult_le_reg_r B); [exact HB|]. unfold Rdiv. rewrite Rmult_assoc, Rinv_l; lra. }
    field. lra.
Qed.

(** ** which terms the reported composite density contains *)
Section Form.
  Context {T : Type} `{Num T}.
  (** no birth term unless the dimension grows *)
  Theorem td_no_birth_terms (cur prop : list bool) (births inmodel : list (option T)) :
    td_terms false cur prop births inmodel = [].
  Proof.
    revert prop births inmodel; induction cur as [|c cur IH]; intros [|p prop] [|b births] [|m inmodel]; cbn; auto.
    rewrite andb_false_r. apply IH.
  Qed.
  (** when it grows, exactly the newly active components contribute their birth density *)
  Theorem td_birth_terms_spec (cur prop : list bool) (births inmodel : list (option T)) :
    length prop = length cur -> length births = length cur -> length inmodel = length cur ->
    td_terms true cur prop births inmodel
    = map snd (filter (fun cb => negb (fst (fst cb)) && snd (fst cb)) (combine (combine cur prop) births)).
  Proof.
    revert prop births inmodel; induction cur as [|c cur IH]; intros [|p prop] [|b births] [|m inmodel] H1 H2 H3; cbn in *; try lia; auto.
    rewrite andb_true_r. destruct (negb c && p); cbn; [f_equal|]; apply IH; lia.
  Qed.
  (** components active on both sides contribute their in-model density, in either direction *)
  Theorem td_inmodel_spec (cur prop : list bool) (inmodel : list (option T)) :
    length prop = length cur -> length inmodel = length cur ->
    td_inmodel cur prop inmodel = map snd (filter (fun cm => fst (fst cm) && snd (fst cm)) (combine (combine cur prop) inmodel)).
  Proof.
    revert prop inmodel; induction cur as [|c cur IH]; intros [|p prop] [|m inmodel] H1 H2; cbn in *; try lia; auto.
    destruct (c && p); cbn; [f_equal|]; apply IH; lia.
  Qed.
  (** a zero-probability index jump makes the whole move impossible *)
  Theorem td_index_none dk cur prop births inmodel : td_logpdf None dk cur prop births inmodel = None.
  Proof. reflexivity. Qed.
End Form.
