(** Proofs about the numeric sweep: the code refines the adjacent-exchange specification (any
    numeric instance), the pair acceptance probability and its balance over the reals, and
    invariance of the joint tempered target on finite configuration spaces. *)
From Coq Require Import Reals Lra Lia List.
From Epsie Require Import Base Num NumR MH MH_proofs SweepNum.
Import ListNotations.

Section Refine.
  Context {T : Type} `{Num T}.

  (** loop invariant: slots below [tk] still hold their own state; [loglk] is the
      log-likelihood of the state currently in slot [tk] *)
  Theorem sweep_refines betas logls tk : forall idx loglk us ars,
    tk < length idx ->
    (forall t, t < tk -> nth t idx 0 = t) ->
    loglk = nth (nth tk idx 0) logls nzero ->
    sweep_code betas logls tk idx loglk us ars = sweep_spec betas logls tk idx us ars.
  Proof.
    induction tk as [|tj IH]; intros idx loglk us ars Hlen Hid Hk; cbn [sweep_code sweep_spec]; [reflexivity|].
    rewrite (Hid tj) by lia. rewrite <- Hk.
    assert (Hswap : forall us' ars', sweep_code betas logls tj (swap2 idx tj) loglk us' ars'
                                     = sweep_spec betas logls tj (swap2 idx tj) us' ars').
    { intros us' ars'. apply IH.
      - unfold swap2. rewrite !upd_length. lia.
      - intros t Ht. unfold swap2. rewrite !nth_upd_neq by lia. apply Hid. lia.
      - unfold swap2. rewrite nth_upd_eq by (rewrite upd_length; lia). exact Hk. }
    assert (Hkeep : forall us' ars', sweep_code betas logls tj idx (nth tj logls nzero) us' ars'
                                     = sweep_spec betas logls tj idx us' ars').
    { intros us' ars'. apply IH; [lia|intros t Ht; apply Hid; lia|]. now rewrite (Hid tj) by lia. }
    destruct (nltb nzero _); [apply Hswap|].
    destruct us as [|u us']; [reflexivity|].
    destruct (nleb u _); [apply Hswap|apply Hkeep].
  Qed.

  Corollary sweep_is_spec betas logls us :
    0 < length logls ->
    sweep betas logls us
    = sweep_spec betas logls (length logls - 1) (seq 0 (length logls)) us (repeat nzero (length logls - 1)).
  Proof.
    intros Hn. unfold sweep. apply sweep_refines.
    - rewrite seq_length. lia.
    - intros t Ht. rewrite seq_nth by lia. reflexivity.
    - rewrite seq_nth by lia. reflexivity.
  Qed.
End Refine.

Local Open Scope R_scope.

Lemma ln_div' a b : 0 < a -> 0 < b -> ln (a / b) = ln a - ln b.
Proof. intros Ha Hb. unfold Rdiv. rewrite ln_mult, ln_Rinv; auto. apply Rinv_0_lt_compat; auto. Qed.

(** ** one pair over the reals *)
Theorem swap_region (logar u : R) :
  0 <= u < 1 ->
  let '(sw, ar, used) := swap_decide logar u in
  ar = Rmin 1 (exp logar) /\ (sw = true <-> u <= Rmin 1 (exp logar)) /\ (used = false -> logar > 0).
Proof.
  intros [Hu0 Hu1]. unfold swap_decide. cbn [nltb nzero none nexp nleb NumReal].
  destruct (Rltb 0 logar) eqn:E.
  - apply Rltb_true in E. pose proof (exp_gt_1 logar E). rewrite Rmin_left by lra. repeat split; auto; lra.
  - apply Rltb_false in E. pose proof (exp_le_1 logar E). rewrite Rmin_right by lra. repeat split; try discriminate.
    + apply Rleb_true.
    + apply Rleb_true.
Qed.

(** the acceptance ratio of the exchange of occupants a (colder slot j) and b (hotter slot k):
    (L_a / L_b)^(beta_k - beta_j), with the betas of the SLOTS *)
Theorem pair_prob (bj bk La Lb : R) :
  0 < La -> 0 < Lb ->
  exp (pair_logar [bj; bk] 0 (ln La) (ln Lb)) = Rpower (La / Lb) (bk - bj).
Proof.
  intros Ha Hb. unfold pair_logar. cbn [nth nsub nmul NumReal]. unfold Rpower.
  rewrite ln_div' by assumption. reflexivity.
Qed.

(** ... which is the ratio of the joint tempered target after/before the exchange (priors cancel) *)
Theorem pair_balance (bj bk pa pb La Lb : R) :
  0 < pa -> 0 < pb -> 0 < La -> 0 < Lb ->
  ((pb * Rpower Lb bj) * (pa * Rpower La bk)) / ((pa * Rpower La bj) * (pb * Rpower Lb bk))
  = Rpower (La / Lb) (bk - bj).
Proof.
  intros Hpa Hpb Ha Hb. unfold Rpower. rewrite ln_div' by assumption.
  replace ((bk - bj) * (ln La - ln Lb)) with ((bj * ln Lb + bk * ln La) + - (bj * ln La + bk * ln Lb)) by ring.
  rewrite exp_plus, exp_Ropp, !exp_plus.
  pose proof (exp_pos (bj * ln Lb)). pose proof (exp_pos (bk * ln La)).
  pose proof (exp_pos (bj * ln La)). pose proof (exp_pos (bk * ln Lb)).
  field. repeat split; lra.
Qed.

(** ** invariance on finite configuration spaces *)
Section Invariance.
  Variable X : Type.                               (* configurations: which state sits at which level *)
  Variable eq_dec : forall x y : X, {x = y} + {x <> y}.
  Variable xs : list X.
  Hypothesis xs_nodup : NoDup xs.
  Variable Pi : X -> R.                            (* joint tempered target, unnormalised *)

  Notation sum := (lsum X xs).
  Definition Invariant (K : X -> X -> R) : Prop := forall y, In y xs -> sum (fun x => Pi x * K x y) = Pi y.

  (** an exchange kernel: with probability [a x] move to [s x] (an involution), else stay *)
  Definition exchange_kernel (s : X -> X) (a : X -> R) (x y : X) : R :=
    (if eq_dec y (s x) then a x else 0) + (if eq_dec y x then 1 - a x else 0).

  Theorem exchange_invariant (s : X -> X) (a : X -> R) :
    (forall x, In x xs -> In (s x) xs) -> (forall x, In x xs -> s (s x) = x) ->
    (forall x, In x xs -> Pi x * a x = Pi (s x) * a (s x)) ->
    Invariant (exchange_kernel s a).
  Proof.
    intros Hin Hinv Hbal y Hy. unfold exchange_kernel.
    rewrite (lsum_ext_in X xs _ (fun x => (if eq_dec x (s y) then Pi x * a x else 0)
                                           + (if eq_dec x y then Pi x * (1 - a x) else 0))).
    - rewrite lsum_plus, !lsum_indicator_r by auto. rewrite <- (Hbal y Hy). lra.
    - intros x Hx. destruct (eq_dec y (s x)) as [E|E], (eq_dec x (s y)) as [E'|E'].
      + destruct (eq_dec y x), (eq_dec x y); try congruence; lra.
      + exfalso. apply E'. rewrite E. symmetry. now apply Hinv.
      + exfalso. apply E. rewrite E'. symmetry. now apply Hinv.
      + destruct (eq_dec y x), (eq_dec x y); try congruence; lra.
  Qed.

  (** composition of kernels that keep the state space *)
  Definition compose (K1 K2 : X -> X -> R) (x y : X) : R := sum (fun e => K1 x e * K2 e y).

  Theorem compose_invariant K1 K2 : Invariant K1 -> Invariant K2 -> Invariant (compose K1 K2).
  Proof.
    intros H1 H2 y Hy. unfold compose.
    rewrite (lsum_ext_in X xs _ (fun x => sum (fun e => Pi x * K1 x e * K2 e y))).
    2:{ intros x _. rewrite <- lsum_scal. apply lsum_ext_in. intros; ring. }
    rewrite lsum_swap.
    rewrite (lsum_ext_in X xs _ (fun e => Pi e * K2 e y)); [now apply H2|].
    intros e He. rewrite (lsum_ext_in X xs _ (fun x => K2 e y * (Pi x * K1 x e))) by (intros; ring).
    rewrite lsum_scal, (H1 e He). ring.
  Qed.

  (** a whole sweep = the exchange kernels of the pairs composed from the hottest pair down *)
  Fixpoint compose_all (Ks : list (X -> X -> R)) : X -> X -> R :=
    match Ks with
    | [] => fun x y => if eq_dec x y then 1 else 0
    | K :: t => compose K (compose_all t)
    end.

  Theorem sweep_invariant Ks : Forall Invariant Ks -> Invariant (compose_all Ks).
  Proof.
    induction 1 as [|K t HK HF IH]; cbn.
    - intros y Hy. rewrite (lsum_ext_in X xs _ (fun x => if eq_dec x y then Pi x else 0)).
      + now apply lsum_indicator_r.
      + intros x _. destruct (eq_dec x y); lra.
    - now apply compose_invariant.
  Qed.
End Invariance.
