(** The adaptation windows on the proposal's own clock ([Clock.v]): [_nsteps] advances by one per
    chain iteration ([tick]), the window test reads [nsteps = _nsteps // jump_interval]; so the
    window, once closed, stays closed for ever, and it is closed from chain iteration
    [jump_interval * (duration + start_step - 1)] on - whatever the acceptance history. *)
From Coq Require Import Reals ZArith Lia List Bool.
From Coq Require Import ZifyBool ZifyNat.
From Epsie Require Import Base Num NumR Clock Adapt Adapt_proofs AdaptM AdaptM_proofs.
Ltac Zify.zify_post_hook ::= Z.to_euclidean_division_equations.
Import ListNotations.

Lemma nsteps_tick_mono (c : pclock) : (1 <= pk c)%nat -> (nsteps c <= nsteps (tick c))%Z.
Proof.
  intros Hk. unfold nsteps, tick. cbn [pn pk]. apply inj_le. apply Nat.div_le_mono; lia.
Qed.

Lemma tick_pk (c : pclock) : pk (tick c) = pk c.
Proof. reflexivity. Qed.

(** the first chain iteration from which the window is closed *)
Lemma window_closed_from (k n : nat) (T s : Z) : (1 <= k)%nat ->
  (Z.of_nat k * (T + s - 1) <= Z.of_nat n)%Z -> (T <= dkZ (Z.of_nat (n / k)) s)%Z.
Proof.
  intros Hk Hn. unfold dkZ. rewrite Nat2Z.inj_div.
  assert (T + s - 1 <= Z.of_nat n / Z.of_nat k)%Z; [|lia].
  apply Z.div_le_lower_bound; lia.
Qed.

Section Frozen.
  (** any state type [S] with an update that is the identity whenever its window is closed *)
  Variable S : Type.
  Variable I : Type.                                   (* what one update reads: acceptance record, position, virtual ratios *)
  Variable upd : S -> Z -> I -> S.                     (* update st nsteps input *)
  Variable Tof startof : S -> Z.
  Hypothesis frozen : forall st nsteps i, (Tof st <= dkZ nsteps (startof st))%Z -> upd st nsteps i = st.

  Definition run1 (sc : S * pclock) (i : I) : S * pclock := (upd (fst sc) (nsteps (snd sc)) i, tick (snd sc)).

  Theorem frozen_by_clock (c : pclock) (st : S) (hist : list I) :
    (1 <= pk c)%nat -> (Tof st <= dkZ (nsteps c) (startof st))%Z -> fst (fold_left run1 hist (st, c)) = st.
  Proof.
    revert c. induction hist as [|i t IH]; intros c Hk Hc; cbn [fold_left]; [reflexivity|].
    unfold run1 at 2. cbn [fst snd]. rewrite frozen by exact Hc.
    apply IH; [rewrite tick_pk; exact Hk|]. pose proof (nsteps_tick_mono c Hk). unfold dkZ in *. lia.
  Qed.

  Corollary frozen_from_iteration (c : pclock) (st : S) (hist : list I) :
    (1 <= pk c)%nat -> (Z.of_nat (pk c) * (Tof st + startof st - 1) <= Z.of_nat (pn c))%Z ->
    fst (fold_left run1 hist (st, c)) = st.
  Proof.
    intros Hk Hn. apply frozen_by_clock; [exact Hk|]. unfold nsteps. apply window_closed_from; assumption.
  Qed.
End Frozen.

(** instances: every adaptive family with an end of adaptation, on its own clock, for every
    history of acceptance records, positions and virtual-move ratios *)
Theorem veitch_frozen_clock (v : @veitch R) (c : pclock) (hist : list bool) :
  (1 <= pk c)%nat -> (Z.of_nat (pk c) * (v_T v + v_start v - 1) <= Z.of_nat (pn c))%Z ->
  fst (fold_left (run1 _ _ (fun st n acc => veitch_update st n acc)) hist (v, c)) = v.
Proof. apply (frozen_from_iteration _ _ _ v_T v_start). intros st n acc. apply veitch_frozen. Qed.

Theorem at_frozen_clock (p : @at_state R) (c : pclock) (hist : list (R * list R)) :
  (1 <= pk c)%nat -> (Z.of_nat (pk c) * (a_T p + a_start p - 1) <= Z.of_nat (pn c))%Z ->
  fst (fold_left (run1 _ _ (fun st n i => at_update st n (fst i) (snd i))) hist (p, c)) = p.
Proof. apply (frozen_from_iteration _ _ _ a_T a_start). intros st n i. apply at_frozen. Qed.

Theorem atf_frozen_clock (p : @atf_state R) (c : pclock) (hist : list (R * list R)) :
  (1 <= pk c)%nat -> (Z.of_nat (pk c) * (f_T p + f_start p - 1) <= Z.of_nat (pn c))%Z ->
  fst (fold_left (run1 _ _ (fun st n i => atf_update st n (fst i) (snd i))) hist (p, c)) = p.
Proof. apply (frozen_from_iteration _ _ _ f_T f_start). intros st n i. apply atf_frozen. Qed.

Theorem atc_frozen_clock (p : @atc_state R) (c : pclock) (hist : list (list R * list R)) :
  (1 <= pk c)%nat -> (Z.of_nat (pk c) * (c_T p + c_start p - 1) <= Z.of_nat (pn c))%Z ->
  fst (fold_left (run1 _ _ (fun st n i => atc_update st n (fst i) (snd i))) hist (p, c)) = p.
Proof. apply (frozen_from_iteration _ _ _ c_T c_start). intros st n i. apply atc_frozen. Qed.

Theorem atcf_frozen_clock (p : @atcf_state R) (c : pclock) (hist : list (list R * list R)) :
  (1 <= pk c)%nat -> (Z.of_nat (pk c) * (g_T p + g_start p - 1) <= Z.of_nat (pn c))%Z ->
  fst (fold_left (run1 _ _ (fun st n i => atcf_update st n (fst i) (snd i))) hist (p, c)) = p.
Proof. apply (frozen_from_iteration _ _ _ g_T g_start). intros st n i. apply atcf_frozen. Qed.

Theorem eig_kappa_frozen_clock (p : @rm_state R) (c : pclock) (hist : list R) :
  (1 <= pk c)%nat -> (Z.of_nat (pk c) * (r_T p + r_start p - 1) <= Z.of_nat (pn c))%Z ->
  fst (fold_left (run1 _ _ (fun st n ar => eig_update st n ar)) hist (p, c)) = p
  /\ fst (fold_left (run1 _ _ (fun st n ar => kappa_update st n ar)) hist (p, c)) = p.
Proof.
  intros Hk Hn. split.
  - apply (frozen_from_iteration _ _ _ r_T r_start); auto. intros st n i Hd. apply (proj1 (rm_frozen st n i Hd)).
  - apply (frozen_from_iteration _ _ _ r_T r_start); auto. intros st n i Hd. apply (proj2 (rm_frozen st n i Hd)).
Qed.
