(** Source tie for the Sivia-Skilling update ([SSAdaptiveSupport._update], diagonal branch), from /repo
    as it is today ([Gen/SrcAdapt.v], regenerated on every run by tools/py2coq_num.py): the factor
    alpha as a function of the acceptance count, the proposal's clock, the window start and the target
    rate; the factor applied to the widths ([alpha ** 0.5]); and the test against the cap under which it
    is applied.  Over the reals these ARE the model's [ss_alpha] / [ss_update] ([Adapt.v]), for all inputs;
    C13's direction theorem and C14's cap theorem are about that model. *)
From Coq Require Import Reals Lra ZArith List Bool.
From Epsie Require Import Base Num NumR Adapt Adapt_proofs Gen.SrcAdapt.
Local Open Scope R_scope.

Ltac num_unfold := cbn [nadd nsub nmul ndiv nopp nexp nln nofZ nzero none nltb nleb nsqrt NumReal].

Lemma src_ss_alpha_tie (nacc nsteps start : Z) (target : R) :
  src_ss_alpha (IZR nacc) (IZR nsteps) (IZR start) target = ss_alpha nacc (nsteps - (start - 1) + 1) target.
Proof.
  unfold src_ss_alpha, ss_alpha. num_unfold.
  replace (IZR nsteps - (IZR start - IZR 1) + IZR 1) with (IZR (nsteps - (start - 1) + 1))
    by (rewrite plus_IZR, !minus_IZR; reflexivity).
  set (niter := (nsteps - (start - 1) + 1)%Z).
  replace (IZR niter - IZR nacc) with (IZR (niter - nacc)) by (now rewrite minus_IZR).
  replace (IZR 1 / IZR nacc) with (1 / IZR nacc) by reflexivity.
  replace (- IZR 1 / IZR (niter - nacc)) with (- 1 / IZR (niter - nacc)) by reflexivity.
  reflexivity.
Qed.

Lemma src_ss_diag_factor_sqrt (a : R) : 0 < a -> src_ss_diag_factor a = sqrt a.
Proof.
  intros Ha. unfold src_ss_diag_factor, npow. num_unfold.
  replace (IZR 1 / IZR 2) with (/ 2) by (simpl; lra).
  exact (Rpower_sqrt a Ha).
Qed.

Lemma src_ss_diag_applies_val (a mx cap : R) : 0 < a ->
  src_ss_diag_applies a mx cap = Rleb (sqrt a * mx) cap.
Proof.
  intros Ha. unfold src_ss_diag_applies. change (npow a (ndiv (nofZ 1%Z) (nofZ 2%Z))) with (src_ss_diag_factor a).
  rewrite (src_ss_diag_factor_sqrt a Ha). reflexivity.
Qed.

(** the whole diagonal update of the model, written with the generated definitions *)
Lemma src_ss_update_tie (p : @ss R) (nsteps : Z) (acc : bool) :
  let nacc := (s_nacc p + (if acc then 1 else 0))%Z in
  let a0 := src_ss_alpha (IZR nacc) (IZR nsteps) (IZR (s_start p)) (s_target p) in
  0 < a0 ->
  s_std (ss_update p nsteps acc)
  = (if match s_cap p with None => true | Some cap => src_ss_diag_applies a0 (list_max (s_std p)) cap end
     then map (fun s => s * src_ss_diag_factor a0) (s_std p) else s_std p)
  /\ s_nacc (ss_update p nsteps acc) = nacc.
Proof.
  intros nacc a0 Ha. unfold a0 in *. rewrite src_ss_alpha_tie in *. fold nacc in Ha |- *.
  set (al := ss_alpha nacc (nsteps - (s_start p - 1) + 1) (s_target p)) in *.
  unfold ss_update. fold nacc. fold al. cbn [s_std s_nacc]. num_unfold. split; [|reflexivity].
  rewrite (src_ss_diag_factor_sqrt al Ha).
  destruct (s_cap p) as [cap|]; [rewrite (src_ss_diag_applies_val al _ cap Ha)|]; reflexivity.
Qed.

(** consequences stated on the generated definitions themselves *)
Lemma src_ss_alpha_direction (nacc nsteps start : Z) (target : R) :
  let niter := (nsteps - (start - 1) + 1)%Z in
  (0 <= nacc <= niter)%Z -> (0 < niter)%Z -> 0 < target < 1 ->
  let a0 := src_ss_alpha (IZR nacc) (IZR nsteps) (IZR start) target in
  (target < IZR nacc / IZR niter -> 1 < a0) /\ (IZR nacc / IZR niter < target -> 0 < a0 < 1) /\ 0 < a0.
Proof.
  intros niter Hn Hi Ht a0. unfold a0. rewrite src_ss_alpha_tie. fold niter.
  exact (ss_alpha_cases {| s_std := nil; s_nacc := 0; s_target := target; s_start := start; s_cap := None |} Ht nacc niter Hn Hi).
Qed.

Lemma src_ss_cap_respected (a0 mx cap s : R) :
  0 < a0 -> 0 < s <= mx -> src_ss_diag_applies a0 mx cap = true -> 0 < s * src_ss_diag_factor a0 <= cap.
Proof.
  intros Ha [Hs Hm] Hap. rewrite (src_ss_diag_applies_val a0 mx cap Ha) in Hap. apply Rleb_true in Hap.
  rewrite (src_ss_diag_factor_sqrt a0 Ha). pose proof (sqrt_lt_R0 a0 Ha) as Hq. split; nra.
Qed.
