(** The generated rendering of the source's integer decision logic ([Gen/Src.v], written by
    tools/py2coq.py from the current /repo on every run) equals the hand-written model, for ALL
    inputs.  When the source changes one of these decisions, the corresponding lemma stops
    compiling.  This file: the sweep schedule and the rows of the swap history (C09). *)
From Coq Require Import ZArith Bool Lia List.
From Coq Require Import ZifyBool ZifyNat.
From Epsie Require Import Base Machine Gen.Src.
Ltac Zify.zify_post_hook ::= Z.to_euclidean_division_equations.
Local Open Scope Z_scope.

Lemma of_nat_div (n k : nat) : Z.of_nat (n / k) = Z.of_nat n / Z.of_nat k.
Proof. apply Nat2Z.inj_div. Qed.
Lemma of_nat_mod (n k : nat) : (0 < k)%nat -> Z.of_nat (n mod k) = Z.of_nat n mod Z.of_nat k.
Proof. intros. apply Nat2Z.inj_mod. Qed.

(** ** the sweep schedule (C09), the length of a chain and scratch growth (C08 / C06) *)
Lemma src_swap_due_tie (iteration ntemps swap_interval : nat) : (1 <= swap_interval)%nat ->
  src_swap_due (Z.of_nat iteration) (Z.of_nat ntemps) (Z.of_nat swap_interval)
  = ((1 <? ntemps)%nat && (iteration mod swap_interval =? 0)%nat).
Proof.
  intros Hs. unfold src_swap_due. rewrite <- of_nat_mod by lia.
  destruct (Nat.ltb_spec 1 ntemps); destruct (Z.ltb_spec 1 (Z.of_nat ntemps)); try lia;
    destruct (Nat.eqb_spec (iteration mod swap_interval) 0); destruct (Z.eqb_spec (Z.of_nat (iteration mod swap_interval)) 0); try lia; reflexivity.
Qed.

(** where a sweep stores its row, and how many rows the views show (the two differ after a clear
    at an iteration that is not a multiple of the swap interval: known finding D3 of C09/C06) *)
Lemma src_swap_ii_tie (iteration lastclear : nat) : (lastclear < iteration)%nat ->
  src_swap_ii (Z.of_nat iteration) (Z.of_nat lastclear) = Z.of_nat (iteration - lastclear - 1).
Proof. intros Hlt. unfold src_swap_ii. lia. Qed.

Lemma src_swap_row_tie (ii swap_interval : nat) :
  src_swap_row (Z.of_nat ii) (Z.of_nat swap_interval) = Z.of_nat (ii / swap_interval).
Proof. unfold src_swap_row. now rewrite of_nat_div. Qed.

Lemma src_view_rows_tie (len swap_interval : nat) :
  src_swaps_view_rows (Z.of_nat len) (Z.of_nat swap_interval) = Z.of_nat (len / swap_interval)
  /\ src_acceptance_view_rows (Z.of_nat len) (Z.of_nat swap_interval) = Z.of_nat (len / swap_interval).
Proof. unfold src_swaps_view_rows, src_acceptance_view_rows. now rewrite of_nat_div. Qed.

