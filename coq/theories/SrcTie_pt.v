(** The generated rendering of the source's integer decision logic ([Gen/Src.v], written by
    tools/py2coq.py from the current /repo on every run) equals the hand-written model, for ALL
    inputs.  When the source changes one of these decisions, the corresponding lemma stops
    compiling.  This file: sweep schedule, chain length, scratch growth (C09, C08, C06). *)
From Coq Require Import ZArith Bool Lia List.
From Coq Require Import ZifyBool ZifyNat.
From Epsie Require Import Base Machine Gen.Src.
Ltac Zify.zify_post_hook ::= Z.to_euclidean_division_equations.
Local Open Scope Z_scope.

Lemma of_nat_div (n k : nat) : Z.of_nat (n / k) = Z.of_nat n / Z.of_nat k.
Proof. apply Nat2Z.inj_div. Qed.
Lemma of_nat_mod (n k : nat) : (0 < k)%nat -> Z.of_nat (n mod k) = Z.of_nat n mod Z.of_nat k.
Proof. intros. apply Nat2Z.inj_mod. Qed.

(** ** the sweep schedule (C09), the length of a chain and scratch growth (C08 / C06) *)
Lemma src_swap_due_tie (iteration ntemps swap_interval : nat) : (1 <= swap_interval)%nat ->
  src_swap_due (Z.of_nat iteration) (Z.of_nat ntemps) (Z.of_nat swap_interval)
  = ((1 <? ntemps)%nat && (iteration mod swap_interval =? 0)%nat).
Proof.
  intros Hs. unfold src_swap_due. rewrite <- of_nat_mod by lia.
  destruct (Nat.ltb_spec 1 ntemps); destruct (Z.ltb_spec 1 (Z.of_nat ntemps)); try lia;
    destruct (Nat.eqb_spec (iteration mod swap_interval) 0); destruct (Z.eqb_spec (Z.of_nat (iteration mod swap_interval)) 0); try lia; reflexivity.
Qed.

Lemma src_len_tie {V} (c : chain V) : (lastclear V c <= iter V c)%nat ->
  src_len (Z.of_nat (iter V c)) (Z.of_nat (lastclear V c)) = Z.of_nat (clen V c).
Proof. intros Hle. unfold src_len, clen. lia. Qed.

Lemma src_run_scratchlen_tie (n len sl : nat) :
  src_run_scratchlen (Z.of_nat n) (Z.of_nat len) (Z.of_nat sl) = Z.of_nat (sl + (n + len - sl)).
Proof. unfold src_run_scratchlen. lia. Qed.
