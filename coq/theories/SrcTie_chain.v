(** The generated rendering of the source's integer decision logic ([Gen/Src.v], written by
    tools/py2coq.py from the current /repo on every run) equals the hand-written model, for ALL
    inputs.  When the source changes one of these decisions, the corresponding lemma stops
    compiling.  This file: chain length and scratch growth (C08, C06). *)
From Coq Require Import ZArith Bool Lia List.
From Coq Require Import ZifyBool ZifyNat.
From Epsie Require Import Base Machine Gen.Src.
Ltac Zify.zify_post_hook ::= Z.to_euclidean_division_equations.
Local Open Scope Z_scope.

Lemma of_nat_div (n k : nat) : Z.of_nat (n / k) = Z.of_nat n / Z.of_nat k.
Proof. apply Nat2Z.inj_div. Qed.
Lemma of_nat_mod (n k : nat) : (0 < k)%nat -> Z.of_nat (n mod k) = Z.of_nat n mod Z.of_nat k.
Proof. intros. apply Nat2Z.inj_mod. Qed.

(** ** the length of a chain and scratch growth (C08 / C06) *)
Lemma src_len_tie {V} (c : chain V) : (lastclear V c <= iter V c)%nat ->
  src_len (Z.of_nat (iter V c)) (Z.of_nat (lastclear V c)) = Z.of_nat (clen V c).
Proof. intros Hle. unfold src_len, clen. lia. Qed.

Lemma src_run_scratchlen_tie (n len sl : nat) :
  src_run_scratchlen (Z.of_nat n) (Z.of_nat len) (Z.of_nat sl) = Z.of_nat (sl + (n + len - sl)).
Proof. unfold src_run_scratchlen. lia. Qed.

(** scratch rows: [ChainData.__setitem__] extends by [index + 1 - len] when the index is beyond the
    data ([sc_set]), [set_len] grows by [n - len] exactly when [len < n] ([sc_setlen]) *)
Lemma src_setitem_extend_tie {T} (l : scratch T) (i : nat) (v : T) : (length l <= i)%nat ->
  Z.of_nat (length (sc_set l i v)) = Z.of_nat (length l) + src_setitem_extend (Z.of_nat i) (Z.of_nat (length l)).
Proof.
  intros Hle. unfold sc_set, src_setitem_extend.
  replace (i <? length l)%nat with false by (symmetry; apply Nat.ltb_ge; exact Hle).
  rewrite !app_length, repeat_length. cbn [length]. lia.
Qed.

Lemma src_set_len_tie {T} (l : scratch T) (n : nat) :
  src_set_len_grows (Z.of_nat n) (Z.of_nat (length l)) = (length l <? n)%nat
  /\ ((length l < n)%nat ->
      Z.of_nat (length (sc_setlen l n)) = Z.of_nat (length l) + src_set_len_amount (Z.of_nat n) (Z.of_nat (length l)))
  /\ ((n <= length l)%nat -> sc_setlen l n = l).
Proof.
  unfold src_set_len_grows, src_set_len_amount, sc_setlen. split; [|split].
  - destruct (Nat.ltb_spec (length l) n); destruct (Z.ltb_spec (Z.of_nat (length l)) (Z.of_nat n)); try lia; reflexivity.
  - intros Hlt. replace (length l <? n)%nat with true by (symmetry; apply Nat.ltb_lt; exact Hlt).
    rewrite app_length, repeat_length. lia.
  - intros Hle. replace (length l <? n)%nat with false by (symmetry; apply Nat.ltb_ge; exact Hle). reflexivity.
Qed.
