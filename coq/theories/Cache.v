(** The cdf caches of the discrete proposals ([NormalDiscrete._cdf], [BoundedDiscrete._cdf],
    epsie/proposals/discrete.py) as explicit state.  [F std key] is the uncached computation.
    Every parameter has its own dictionary and its own remembered standard deviation; a
    dictionary is cleared when a query arrives with another standard deviation. *)
From Coq Require Import List Bool Arith.
Import ListNotations.

Section Cache.
  Variable K V Sd : Type.
  Variable keqb : K -> K -> bool.
  Variable seqb : Sd -> Sd -> bool.
  Variable F : Sd -> K -> V.

  Record pcache := { entries : list (K * V); cstd : option Sd }.
  Definition empty : pcache := {| entries := []; cstd := None |}.

  Fixpoint find_key (k : K) (l : list (K * V)) : option V :=
    match l with [] => None | (k', v) :: t => if keqb k k' then Some v else find_key k t end.
  Definition same_std (o : option Sd) (s : Sd) : bool := match o with Some s' => seqb s s' | None => false end.

  (** one query of one parameter's cache: the value returned and the cache afterwards *)
  Definition lookup1 (c : pcache) (std : Sd) (key : K) : V * pcache :=
    let c1 := if same_std (cstd c) std then c else {| entries := []; cstd := cstd c |} in
    match find_key key (entries c1) with
    | Some v => (v, c1)
    | None => let v := F std key in (v, {| entries := (key, v) :: entries c1; cstd := Some std |})
    end.

  (** all parameters: query parameter [pi] *)
  Fixpoint upd_nth {A} (l : list A) (n : nat) (x : A) : list A :=
    match l, n with [], _ => [] | _ :: t, O => x :: t | h :: t, S m => h :: upd_nth t m x end.
  Definition lookup (cs : list pcache) (pi : nat) (std : Sd) (key : K) : V * list pcache :=
    let '(v, c') := lookup1 (nth pi cs empty) std key in (v, upd_nth cs pi c').

  (** the code as it was: [[{}]*n] - ONE dictionary for all parameters, per-parameter remembered std *)
  Record shared := { sentries : list (K * V); scstd : list (option Sd) }.
  Definition lookup_shared (c : shared) (pi : nat) (std : Sd) (key : K) : V * shared :=
    let ents := if same_std (nth pi (scstd c) None) std then sentries c else [] in
    match find_key key ents with
    | Some v => (v, {| sentries := ents; scstd := scstd c |})
    | None => let v := F std key in (v, {| sentries := (key, v) :: ents; scstd := upd_nth (scstd c) pi (Some std) |})
    end.
End Cache.
