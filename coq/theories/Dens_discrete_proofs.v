(** The discrete proposals over the reals: what [NormalDiscrete] and [BoundedDiscrete] report is
    the mass of the preimage cell of the move (divided, for the bounded family, by the mass of
    the acceptance region of its rejection loop), the cells tile the acceptance region, and the
    unbounded family is symmetric. *)
From Coq Require Import Reals Lra Lia ZArith List Bool.
From Epsie Require Import Num NumR Dens Law_cells.
Import ListNotations.
Local Open Scope R_scope.

Section Discrete.
  Variable Phi : R -> R.                                   (* the standard normal cdf *)
  Hypothesis Phi_incr : forall x y, x < y -> Phi x < Phi y.
  Hypothesis Phi_sym : forall x, Phi (- x) = 1 - Phi x.

  Definition massR (a b : R) : R := Phi b - Phi a.

  Lemma mass_pos a b : a < b -> 0 < massR a b.
  Proof. intros H. unfold massR. pose proof (Phi_incr a b H). lra. Qed.
  Lemma mass_add a b c : massR a b + massR b c = massR a c.
  Proof. unfold massR. lra. Qed.
  Lemma mass_opp a b : massR (- b) (- a) = massR a b.
  Proof. unfold massR. rewrite !Phi_sym. lra. Qed.
  Lemma mass_empty a : massR a a = 0.
  Proof. unfold massR. lra. Qed.

  (** the draws that [nd_jump1] maps to a displacement of k (the code's [floorceil] / [round]) *)
  Definition cell (succ : bool) (k : Z) : R * R :=
    if succ then (IZR k - /2, IZR k + /2)
    else if (0 <? k)%Z then (IZR k - 1, IZR k)
    else if (k <? 0)%Z then (IZR k, IZR k + 1) else (0, 0).
  Definition cell_mass (succ : bool) (sigma : R) (k : Z) : R :=
    massR (fst (cell succ k) / sigma) (snd (cell succ k) / sigma).

  (** the jump lands on x + k exactly when the draw lies in cell k *)
  Theorem jump_cell_floorceil (x k : Z) (z : R) : k <> 0%Z ->
    (nd_jump1 rnd_evenR floorceilR false x z = (x + k)%Z
     <-> if (0 <? k)%Z then fst (cell false k) < z <= snd (cell false k) else fst (cell false k) <= z < snd (cell false k)).
  Proof.
    intros Hk. unfold nd_jump1, cell.
    assert (E : (x + floorceilR z)%Z = (x + k)%Z <-> floorceilR z = k) by lia. rewrite E.
    destruct (Z.ltb_spec 0 k).
    - cbn [fst snd]. apply floorceil_cell_pos. lia.
    - destruct (Z.ltb_spec k 0); [|lia]. cbn [fst snd]. apply floorceil_cell_neg. lia.
  Qed.
  Theorem jump_cell_round (x k : Z) (z : R) :
    (fst (cell true k) < z < snd (cell true k) -> nd_jump1 rnd_evenR floorceilR true x z = (x + k)%Z)
    /\ (nd_jump1 rnd_evenR floorceilR true x z = (x + k)%Z -> fst (cell true k) <= z <= snd (cell true k)).
  Proof.
    unfold nd_jump1, cell. cbn [fst snd]. split.
    - intros H. f_equal. apply rnd_even_cell_in. exact H.
    - intros H. apply rnd_even_cell_out. lia.
  Qed.

  Lemma half_R : @half R _ = / 2.
  Proof. unfold half, ntwo. cbn [none nadd ndiv NumReal]. lra. Qed.

  (** cells of k and -k carry the same mass *)
  Lemma cell_mass_opp succ sigma k : 0 < sigma -> cell_mass succ sigma (- k) = cell_mass succ sigma k.
  Proof.
    intros Hs. unfold cell_mass, cell. destruct succ; cbn [fst snd].
    - rewrite opp_IZR. rewrite <- (mass_opp ((IZR k - / 2) / sigma)). f_equal; field; lra.
    - destruct (Z.ltb_spec 0 k), (Z.ltb_spec k 0), (Z.ltb_spec 0 (- k)), (Z.ltb_spec (- k) 0); try lia; cbn [fst snd];
        rewrite ?opp_IZR.
      + rewrite <- (mass_opp ((IZR k - 1) / sigma)). f_equal; field; lra.
      + rewrite <- (mass_opp (IZR k / sigma)). f_equal; field; lra.
      + reflexivity.
  Qed.

  (** ** NormalDiscrete: the reported probability is the mass of the cell *)
  Theorem nd_reported_is_cell_mass (succ : bool) (sigma : R) (k : Z) :
    0 < sigma -> (succ = true \/ k <> 0%Z) ->
    nd_logpmf1 massR succ sigma k = Some (ln (cell_mass succ sigma k)).
  Proof.
    intros Hs Hk. unfold nd_logpmf1. rewrite half_R. cbn [nofZ nsub nadd ndiv nln neqb none nzero NumReal].
    rewrite <- (cell_mass_opp succ sigma k Hs).
    assert (Ecm : cell_mass succ sigma (Z.abs k) = cell_mass succ sigma (- k) \/ True) by (right; exact I).
    assert (Eabs : cell_mass succ sigma (- k) = cell_mass succ sigma (Z.abs k)).
    { destruct (Z.abs_spec k) as [[_ ->]|[_ ->]]; [apply cell_mass_opp; exact Hs|reflexivity]. }
    rewrite Eabs. clear Eabs Ecm.
    destruct succ.
    - unfold cell_mass, cell. cbn [fst snd]. reflexivity.
    - destruct Hk as [Hk|Hk]; [discriminate|].
      destruct (Z.eqb_spec k 0); [contradiction|].
      assert (Hpos : (0 < Z.abs k)%Z) by lia.
      unfold cell_mass, cell. replace (0 <? Z.abs k)%Z with true by (symmetry; apply Z.ltb_lt; exact Hpos). cbn [fst snd].
      assert (Hm : 0 < massR ((IZR (Z.abs k) - 1) / sigma) (IZR (Z.abs k) / sigma)).
      { apply mass_pos. apply Rmult_lt_compat_r; [apply Rinv_0_lt_compat; exact Hs|lra]. }
      unfold Reqb. match goal with |- context [Req_EM_T ?m 0] => destruct (Req_EM_T m 0) as [e|e] end; [exfalso; rewrite e in Hm; lra|reflexivity].
  Qed.

  (** it depends on |x' - x| only: the proposal is symmetric, as it declares *)
  Theorem nd_symmetric (succ : bool) (sigma : R) (x x' : Z) :
    nd_logpmf1 massR succ sigma (x' - x) = nd_logpmf1 massR succ sigma (x - x').
  Proof.
    unfold nd_logpmf1. replace (Z.abs (x' - x)) with (Z.abs (x - x')) by lia.
    destruct succ; [reflexivity|].
    destruct (Z.eqb_spec (x' - x) 0), (Z.eqb_spec (x - x') 0); try lia; reflexivity.
  Qed.

  (** ** the cells of a range of displacements tile an interval *)
  Lemma cell_adjacent succ k : snd (cell succ k) = fst (cell succ (k + 1)).
  Proof.
    unfold cell. destruct succ; cbn [fst snd]; [rewrite plus_IZR; lra|].
    destruct (Z.ltb_spec 0 k), (Z.ltb_spec k 0), (Z.ltb_spec 0 (k + 1)), (Z.ltb_spec (k + 1) 0); try lia; cbn [fst snd];
      rewrite ?plus_IZR; try lra.
    all: try (assert (k = 0%Z) by lia; subst; simpl; lra).
    all: try (assert (k = (-1)%Z) by lia; subst; simpl; lra).
  Qed.

  Fixpoint sum_cells (succ : bool) (sigma : R) (a : Z) (n : nat) : R :=
    match n with
    | O => 0
    | S m => cell_mass succ sigma a + sum_cells succ sigma (a + 1) m
    end.

  Theorem cells_tile (succ : bool) (sigma : R) (n : nat) : forall a,
    sum_cells succ sigma a (S n) = massR (fst (cell succ a) / sigma) (snd (cell succ (a + Z.of_nat n)) / sigma).
  Proof.
    induction n as [|n IH]; intros a.
    - cbn [sum_cells]. rewrite Z.add_0_r. unfold cell_mass. lra.
    - change (sum_cells succ sigma a (S (S n))) with (cell_mass succ sigma a + sum_cells succ sigma (a + 1) (S n)).
      rewrite IH. unfold cell_mass. rewrite (cell_adjacent succ a).
      replace (a + 1 + Z.of_nat n)%Z with (a + Z.of_nat (S n))%Z by lia. apply mass_add.
  Qed.

  (** ** BoundedDiscrete *)
  (** the draws the rejection loop accepts from mu: those mapped into [lo, hi] *)
  Definition accept (succ : bool) (lo hi mu : Z) : R * R :=
    (fst (cell succ (lo - mu)), snd (cell succ (hi - mu))).
  Definition accept_mass succ sigma lo hi mu := massR (fst (accept succ lo hi mu) / sigma) (snd (accept succ lo hi mu) / sigma).

  (** every admissible displacement's cell, summed, is the acceptance region: the reported
      probabilities of all reachable integers add up to one *)
  Theorem accept_is_union (succ : bool) (sigma : R) (lo hi mu : Z) : (lo <= hi)%Z ->
    sum_cells succ sigma (lo - mu) (S (Z.to_nat (hi - lo))) = accept_mass succ sigma lo hi mu.
  Proof.
    intros H. rewrite cells_tile. unfold accept_mass, accept. cbn [fst snd].
    replace (lo - mu + Z.of_nat (Z.to_nat (hi - lo)))%Z with (hi - mu)%Z by lia. reflexivity.
  Qed.

  Lemma div_le_compat a b s : 0 < s -> a <= b -> a / s <= b / s.
  Proof. intros Hs H. apply Rmult_le_compat_r; [left; apply Rinv_0_lt_compat; exact Hs|exact H]. Qed.

  Lemma clip_id a b x : a <= x <= b -> @clip R _ a b x = x.
  Proof.
    intros [H1 H2]. unfold clip, nmax, nmin. cbn [nltb NumReal].
    destruct (Rltb x b) eqn:E1.
    - destruct (Rltb a x) eqn:E2; [reflexivity|apply Rltb_false in E2; lra].
    - apply Rltb_false in E1. assert (x = b) by lra. subst.
      destruct (Rltb a b) eqn:E2; [reflexivity|apply Rltb_false in E2; lra].
  Qed.

  Ltac zprep := repeat match goal with
    | H : (0 < ?k)%Z |- _ => assert (1 <= k)%Z by lia; clear H
    | H : (?k < 0)%Z |- _ => assert (k <= -1)%Z by lia; clear H end;
    repeat match goal with H : (_ <= _)%Z |- _ => apply IZR_le in H end.

  Lemma cell_mono_fst succ k k' : (k <= k')%Z -> fst (cell succ k) <= fst (cell succ k').
  Proof.
    intros H. unfold cell. destruct succ; cbn [fst snd]; [apply IZR_le in H; lra|].
    destruct (Z.ltb_spec 0 k), (Z.ltb_spec k 0), (Z.ltb_spec 0 k'), (Z.ltb_spec k' 0); try lia; cbn [fst snd]; zprep; lra.
  Qed.
  Lemma cell_mono_snd succ k k' : (k <= k')%Z -> snd (cell succ k) <= snd (cell succ k').
  Proof.
    intros H. unfold cell. destruct succ; cbn [fst snd]; [apply IZR_le in H; lra|].
    destruct (Z.ltb_spec 0 k), (Z.ltb_spec k 0), (Z.ltb_spec 0 k'), (Z.ltb_spec k' 0); try lia; cbn [fst snd]; zprep; lra.
  Qed.
  Lemma cell_fst_nonpos k : (k <= 0)%Z -> fst (cell false k) = IZR k.
  Proof.
    intros H. unfold cell. destruct (Z.ltb_spec 0 k); [lia|]. destruct (Z.ltb_spec k 0); cbn [fst]; [reflexivity|].
    assert (k = 0%Z) by lia. subst. reflexivity.
  Qed.
  Lemma cell_snd_nonneg k : (0 <= k)%Z -> snd (cell false k) = IZR k.
  Proof.
    intros H. unfold cell. destruct (Z.ltb_spec 0 k); cbn [snd]; [reflexivity|]. destruct (Z.ltb_spec k 0); [lia|]. cbn [snd].
    assert (k = 0%Z) by lia. subst. reflexivity.
  Qed.
  Lemma cell_ordered succ k : fst (cell succ k) <= snd (cell succ k).
  Proof.
    unfold cell. destruct succ; cbn [fst snd]; [lra|].
    destruct (Z.ltb_spec 0 k), (Z.ltb_spec k 0); cbn [fst snd]; lra.
  Qed.

  (** what [BoundedDiscrete._logpdf] reports for one parameter is the probability with which the
      rejection loop produces x from mu: cell mass over acceptance mass *)
  Theorem bd_reported_is_law (succ : bool) (sigma : R) (lo hi mu x : Z) :
    0 < sigma -> (lo <= mu <= hi)%Z -> (lo <= x <= hi)%Z -> (succ = true \/ x <> mu) ->
    bd_logpmf1 massR succ lo hi sigma mu x
    = Some (ln (cell_mass succ sigma (x - mu) / accept_mass succ sigma lo hi mu)).
  Proof.
    intros Hs Hmu Hx Hne. unfold bd_logpmf1. rewrite half_R.
    cbn [nofZ nsub nadd ndiv nln none NumReal].
    assert (Hin : forall k, (lo - mu <= k <= hi - mu)%Z ->
              fst (accept succ lo hi mu) / sigma <= fst (cell succ k) / sigma <= snd (accept succ lo hi mu) / sigma
              /\ fst (accept succ lo hi mu) / sigma <= snd (cell succ k) / sigma <= snd (accept succ lo hi mu) / sigma).
    { intros k Hk. unfold accept. cbn [fst snd].
      pose proof (cell_mono_fst succ (lo - mu) k ltac:(lia)). pose proof (cell_mono_snd succ k (hi - mu) ltac:(lia)).
      pose proof (cell_ordered succ k). pose proof (cell_ordered succ (lo - mu)). pose proof (cell_ordered succ (hi - mu)).
      repeat split; apply div_le_compat; try exact Hs; lra. }
    destruct succ.
    - destruct (Hin (x - mu)%Z ltac:(lia)) as (A & B).
      unfold tmass, cell_mass, accept_mass, accept, cell in *. cbn [fst snd] in *.
      rewrite !minus_IZR in *.
      rewrite (clip_id _ _ ((IZR x - IZR mu - / 2) / sigma)) by exact A.
      rewrite (clip_id _ _ ((IZR x - IZR mu + / 2) / sigma)) by exact B.
      reflexivity.
    - destruct Hne as [Hne|Hne]; [discriminate|].
      destruct (Z.eqb_spec x mu); [contradiction|].
      assert (Ea : fst (accept false lo hi mu) = IZR (lo - mu)) by (unfold accept; cbn [fst]; apply cell_fst_nonpos; lia).
      assert (Eb : snd (accept false lo hi mu) = IZR (hi - mu)) by (unfold accept; cbn [snd]; apply cell_snd_nonneg; lia).
      destruct (Hin (x - mu)%Z ltac:(lia)) as (A & B).
      unfold cell_mass, accept_mass. rewrite Ea, Eb in *.
      destruct (Z.ltb_spec mu x) as [Hlt|Hge].
      + assert (Ec : cell false (x - mu) = (IZR (x - 1 - mu), IZR (x - mu))).
        { unfold cell. replace (0 <? x - mu)%Z with true by (symmetry; apply Z.ltb_lt; lia). f_equal. rewrite !minus_IZR. simpl. lra. }
        rewrite Ec in *. cbn [fst snd] in *. unfold tmass. rewrite (clip_id _ _ _ A), (clip_id _ _ _ B). reflexivity.
      + assert (Ec : cell false (x - mu) = (IZR (x - mu), IZR (x + 1 - mu))).
        { unfold cell. destruct (Z.ltb_spec 0 (x - mu)); [lia|].
          replace (x - mu <? 0)%Z with true by (symmetry; apply Z.ltb_lt; lia). f_equal. rewrite !minus_IZR, plus_IZR. simpl. lra. }
        rewrite Ec in *. cbn [fst snd] in *. unfold tmass. rewrite (clip_id _ _ _ A), (clip_id _ _ _ B). reflexivity.
  Qed.

  (** the acceptance region has positive mass, so the rejection loop terminates with probability one
      and [rejection_series] applies with p = accept_mass *)
  Theorem accept_mass_pos succ sigma lo hi mu : 0 < sigma -> (lo <= mu <= hi)%Z -> (lo < hi \/ succ = true)%Z ->
    0 < accept_mass succ sigma lo hi mu.
  Proof.
    intros Hs Hmu Hw. unfold accept_mass, accept. cbn [fst snd]. apply mass_pos.
    apply Rmult_lt_compat_r; [apply Rinv_0_lt_compat; exact Hs|].
    unfold cell. destruct succ; cbn [fst snd].
    - assert (IZR (lo - mu) <= IZR (hi - mu)) by (apply IZR_le; lia). lra.
    - destruct Hw as [Hw|Hw]; [|discriminate].
      destruct (Z.ltb_spec 0 (lo - mu)); [lia|].
      destruct (Z.ltb_spec (lo - mu) 0), (Z.ltb_spec 0 (hi - mu)); cbn [fst snd].
      + assert (IZR (lo - mu) <= -1) by (apply (IZR_le _ (-1)); lia). assert (1 <= IZR (hi - mu)) by (apply (IZR_le 1); lia). lra.
      + destruct (Z.ltb_spec (hi - mu) 0); [lia|]. cbn [snd]. assert (IZR (lo - mu) <= -1) by (apply (IZR_le _ (-1)); lia). lra.
      + assert (1 <= IZR (hi - mu)) by (apply (IZR_le 1); lia). lra.
      + lia.
  Qed.
End Discrete.
