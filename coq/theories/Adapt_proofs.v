(** Proofs about the adaptation updates over the reals: direction (C13), freezing after the
    adaptation duration (C13), admissibility invariants and per-step envelopes (C14). *)
From Coq Require Import Reals Lra Lia ZArith List Bool.
From Epsie Require Import Base Num NumR Adapt.
Import ListNotations.
Local Open Scope R_scope.

(** ** analytic facts about the decay factors *)
Lemma ln_pos_gt1 x : 1 < x -> 0 < ln x.
Proof. intros H. rewrite <- ln_1. apply ln_increasing; lra. Qed.
Lemma ln_nonneg_ge1 x : 1 <= x -> 0 <= ln x.
Proof. intros [H | <-]; [left; now apply ln_pos_gt1|rewrite ln_1; lra]. Qed.
Lemma ln_le_mono x y : 0 < x -> x <= y -> ln x <= ln y.
Proof. intros Hx [H | ->]; [left; now apply ln_increasing|lra]. Qed.
Lemma exp_le_mono' a b : a <= b -> exp a <= exp b.
Proof. intros [H | ->]; [left; now apply exp_increasing|lra]. Qed.

Lemma exp_gt_1' x : 0 < x -> 1 < exp x.
Proof. intros H. pose proof (exp_increasing 0 x H) as E. rewrite exp_0 in E. exact E. Qed.
Lemma exp_lt_1' x : x < 0 -> exp x < 1.
Proof. intros H. pose proof (exp_increasing x 0 H) as E. rewrite exp_0 in E. exact E. Qed.

(** Veitch: dk^(-1/log10 T) >= 0.1 for 1 <= dk <= T *)
Lemma veitch_decay_ge_tenth (dk Tr : R) : 1 < Tr -> 1 <= dk <= Tr ->
  / 10 <= exp (- (1 / (ln Tr / ln 10)) * ln dk).
Proof.
  intros HT [H1 H2].
  assert (L10 : 0 < ln 10) by (apply ln_pos_gt1; lra).
  assert (LT : 0 < ln Tr) by (now apply ln_pos_gt1).
  assert (Ldk : 0 <= ln dk) by (now apply ln_nonneg_ge1).
  assert (Lle : ln dk <= ln Tr) by (apply ln_le_mono; lra).
  replace (/10) with (exp (- ln 10)) by (rewrite exp_Ropp, exp_ln; lra).
  apply exp_le_mono'.
  replace (- (1 / (ln Tr / ln 10)) * ln dk) with (- ln 10 * (ln dk / ln Tr)) by (field; lra).
  assert (ln dk / ln Tr <= 1). { apply (Rmult_le_reg_r (ln Tr)); [lra|]. unfold Rdiv. rewrite Rmult_assoc, Rinv_l; lra. }
  assert (0 <= ln dk / ln Tr). { apply Rmult_le_pos; [lra|]. left. apply Rinv_0_lt_compat. lra. }
  nra.
Qed.

(** Robbins-Monro families: 0 < dk^(-0.6) - T^(-0.6) < 1 for 1 <= dk < T *)
Lemma rm_factor_range (dk Tr : R) : 1 <= dk -> dk < Tr ->
  0 < exp (- (6 / 10) * ln dk) - exp (- (6 / 10) * ln Tr) < 1.
Proof.
  intros H1 H2.
  assert (Ldk : 0 <= ln dk) by (now apply ln_nonneg_ge1).
  assert (Llt : ln dk < ln Tr) by (apply ln_increasing; lra).
  split.
  - assert (exp (- (6 / 10) * ln Tr) < exp (- (6 / 10) * ln dk)) by (apply exp_increasing; lra). lra.
  - assert (exp (- (6 / 10) * ln dk) <= exp 0) by (apply exp_le_mono'; lra). rewrite exp_0 in H.
    pose proof (exp_pos (- (6 / 10) * ln Tr)). lra.
Qed.

(** ** lists *)
Lemma map2_length {A B C} (f : A -> B -> C) l1 l2 : length l1 = length l2 -> length (map2 f l1 l2) = length l1.
Proof. revert l2; induction l1 as [|a t IH]; intros [|b t2] Hl; cbn in *; try lia; auto. Qed.

Lemma Forall2_map2 {A B C} (P : A -> C -> Prop) (f : A -> B -> C) l1 l2 :
  length l1 = length l2 -> (forall a b, P a (f a b)) -> Forall2 P l1 (map2 f l1 l2).
Proof. revert l2; induction l1 as [|a t IH]; intros [|b t2] Hl Hf; cbn in *; try lia; constructor; auto. Qed.

Lemma Forall2_map2_in {A B C} (P : A -> C -> Prop) (f : A -> B -> C) l1 : forall l2,
  length l1 = length l2 -> (forall a b, In b l2 -> P a (f a b)) -> Forall2 P l1 (map2 f l1 l2).
Proof.
  induction l1 as [|a t IH]; intros [|b t2] Hl Hf; cbn [map2 length] in *; try lia; constructor.
  - apply Hf. now left.
  - apply IH; [lia|]. intros; apply Hf; now right.
Qed.

Lemma Forall2_combine_map2 {A B C} (Q : A -> B -> C -> Prop) (f : A -> B -> C) l1 : forall l2,
  length l1 = length l2 -> (forall a b, In b l2 -> Q a b (f a b)) ->
  Forall2 (fun ab c => Q (fst ab) (snd ab) c) (combine l1 l2) (map2 f l1 l2).
Proof.
  induction l1 as [|a t IH]; intros [|b t2] Hl Hf; cbn [map2 length combine] in *; try lia; constructor.
  - apply Hf. now left.
  - apply IH; [lia|]. intros; apply Hf; now right.
Qed.

Lemma Forall2_map_r {A B} (P : A -> B -> Prop) (f : A -> B) l : (forall a, P a (f a)) -> Forall2 P l (map f l).
Proof. intros Hf; induction l; cbn; constructor; auto. Qed.

Lemma Forall2_refl' {A} (P : A -> A -> Prop) l : (forall a, P a a) -> Forall2 P l l.
Proof. intros Hf; induction l; constructor; auto. Qed.

(** ** Veitch *)
Section Veitch.
  Variable p : @veitch R.
  Hypothesis Htarget : 0 < v_target p < 1.
  Hypothesis Hdeltas : Forall (fun d => 0 <= d) (v_deltas p).
  Hypothesis Hlen : length (v_std p) = length (v_deltas p).

  Lemma veitch_new_std_cases alpha d s delta :
    veitch_new_std alpha d s delta = s \/ (veitch_new_std alpha d s delta = s + ((alpha * d) * delta) / 10
                                           /\ 0 <= s + ((alpha * d) * delta) / 10).
  Proof.
    unfold veitch_new_std, nten. cbn [nadd nmul ndiv nltb nzero nofZ NumReal].
    destruct (Rltb (s + alpha * d * delta / 10) 0) eqn:E; [now left|right].
    apply Rltb_false in E. split; [reflexivity|exact E].
  Qed.

  (** direction: inside the window, with a non-negative decay factor (true for the default
      decay 1/log10(duration), see [veitch_default_factor]), an accepted step does not
      narrow and a rejected step does not widen any component *)
  Theorem veitch_direction_up nsteps :
    veitch_window p nsteps = true -> 0 <= veitch_factor p nsteps ->
    Forall2 Rle (v_std p) (v_std (veitch_update p nsteps true)).
  Proof.
    intros Hw Hd. unfold veitch_update. rewrite Hw. cbn [v_std].
    rewrite Forall_forall in Hdeltas.
    apply Forall2_map2_in; [exact Hlen|]. intros s dl Hin. specialize (Hdeltas dl Hin).
    destruct (veitch_new_std_cases (1 - v_target p) (veitch_factor p nsteps) s dl) as [E|[E _]];
      cbn [nsub none NumReal]; rewrite E; [lra|].
    assert (0 <= (1 - v_target p) * veitch_factor p nsteps * dl) by (repeat apply Rmult_le_pos; lra). lra.
  Qed.

  Theorem veitch_direction_down nsteps :
    veitch_window p nsteps = true -> 0 <= veitch_factor p nsteps ->
    Forall2 Rge (v_std p) (v_std (veitch_update p nsteps false)).
  Proof.
    intros Hw Hd. unfold veitch_update. rewrite Hw. cbn [v_std].
    rewrite Forall_forall in Hdeltas.
    apply Forall2_map2_in; [exact Hlen|]. intros s dl Hin. specialize (Hdeltas dl Hin).
    destruct (veitch_new_std_cases (- v_target p) (veitch_factor p nsteps) s dl) as [E|[E _]];
      cbn [nopp NumReal]; rewrite E; [lra|].
    assert (0 <= v_target p * veitch_factor p nsteps * dl) by (repeat apply Rmult_le_pos; lra). lra.
  Qed.

  (** the default decay makes the factor non-negative on the whole window *)
  Theorem veitch_default_factor nsteps :
    (1 < v_T p)%Z -> v_decay p = 1 / (ln (IZR (v_T p)) / ln 10) ->
    veitch_window p nsteps = true -> 0 <= veitch_factor p nsteps.
  Proof.
    intros HT Hdecay Hw. unfold veitch_window in Hw. apply andb_prop in Hw as [H1 H2].
    apply Z.leb_le in H1. apply Z.ltb_lt in H2.
    unfold veitch_factor, npow, ntenth, nten. cbn [nsub nexp nmul nln nopp ndiv none nofZ NumReal]. rewrite Hdecay.
    pose proof (veitch_decay_ge_tenth (IZR (dkZ nsteps (v_start p))) (IZR (v_T p))) as Hv.
    assert (1 < IZR (v_T p)) by (apply IZR_lt; lia).
    assert (1 <= IZR (dkZ nsteps (v_start p)) <= IZR (v_T p)) by (split; apply IZR_le; lia).
    specialize (Hv H H0). replace (1 / 10) with (/10) by lra. lra.
  Qed.

  (** frozen: once the adaptation duration has elapsed the update is the identity *)
  Theorem veitch_frozen nsteps acc : (v_T p <= dkZ nsteps (v_start p))%Z -> veitch_update p nsteps acc = p.
  Proof.
    intros H. unfold veitch_update, veitch_window.
    replace (dkZ nsteps (v_start p) <? v_T p)%Z with false by (symmetry; apply Z.ltb_ge; exact H).
    now rewrite andb_false_r.
  Qed.

  (** admissible: widths never become negative *)
  Theorem veitch_nonneg nsteps acc :
    Forall (fun s => 0 <= s) (v_std p) -> Forall (fun s => 0 <= s) (v_std (veitch_update p nsteps acc)).
  Proof.
    intros Hs. unfold veitch_update. destruct (veitch_window p nsteps); [|exact Hs]. cbn [v_std].
    set (d := veitch_factor p nsteps). clearbody d.
    revert Hs. generalize (v_deltas p) as ds. generalize (if acc then none - v_target p else - v_target p)%num as alpha.
    generalize (v_std p) as ss.
    induction ss as [|s ss IH]; intros alpha ds Hs; destruct ds as [|dl ds]; cbn [map2]; try constructor.
    - inversion Hs; subst. destruct (veitch_new_std_cases alpha d s dl) as [E|[E Hn]]; rewrite E; assumption.
    - inversion Hs; subst. apply IH. assumption.
  Qed.

  (** envelope of one step: no component grows by more than (1-target) * factor * delta / 10 *)
  Theorem veitch_step_bound nsteps acc :
    veitch_window p nsteps = true -> 0 <= veitch_factor p nsteps ->
    Forall2 (fun sd s' => s' <= fst sd + (1 - v_target p) * veitch_factor p nsteps * snd sd / 10)
            (combine (v_std p) (v_deltas p)) (v_std (veitch_update p nsteps acc)).
  Proof.
    intros Hw Hd. unfold veitch_update. rewrite Hw. cbn [v_std].
    rewrite Forall_forall in Hdeltas.
    apply (Forall2_combine_map2 (fun s dl s' => s' <= s + (1 - v_target p) * veitch_factor p nsteps * dl / 10));
      [exact Hlen|]. intros s dl Hin. specialize (Hdeltas dl Hin).
    assert (0 <= (1 - v_target p) * veitch_factor p nsteps * dl) by (repeat apply Rmult_le_pos; lra).
    destruct acc.
    - destruct (veitch_new_std_cases (1 - v_target p) (veitch_factor p nsteps) s dl) as [E|[E _]];
        cbn [nsub none NumReal]; rewrite E; lra.
    - destruct (veitch_new_std_cases (- v_target p) (veitch_factor p nsteps) s dl) as [E|[E _]];
        cbn [nopp NumReal]; rewrite E; [lra|].
      assert (0 <= v_target p * veitch_factor p nsteps * dl) by (repeat apply Rmult_le_pos; lra). lra.
  Qed.
End Veitch.

(** freezing for every history: any list of later updates leaves a frozen proposal unchanged *)
Theorem veitch_frozen_forever (p : @veitch R) (hist : list (Z * bool)) :
  Forall (fun h => (v_T p <= dkZ (fst h) (v_start p))%Z) hist ->
  fold_left (fun q h => veitch_update q (fst h) (snd h)) hist p = p.
Proof.
  induction hist as [|h t IH]; intros HF; cbn; [reflexivity|]. inversion HF; subst.
  rewrite veitch_frozen by assumption. now apply IH.
Qed.

(** ** Sivia-Skilling *)
Lemma list_max_ge (l : list R) x : In x l -> x <= list_max l.
Proof.
  destruct l as [|a t]; [intros []|]. unfold list_max.
  assert (G : forall t a, a <= fold_left nmax t a /\ (forall y, In y t -> y <= fold_left nmax t a)).
  { clear. induction t as [|b t IH]; intros a; cbn; [split; [lra|intros ? []]|].
    destruct (IH (nmax a b)) as [A B]. unfold nmax in *. cbn [nltb NumReal] in *.
    destruct (Rltb a b) eqn:E; [apply Rltb_true in E|apply Rltb_false in E].
    - split; [lra|]. intros y [<-|Hy]; [lra|auto].
    - split; [lra|]. intros y [<-|Hy]; [lra|auto]. }
  destruct (G t a) as [A B]. intros [<-|Hx]; auto.
Qed.

Section SS.
  Variable p : @ss R.
  Hypothesis Htarget : 0 < s_target p < 1.

  Lemma ss_alpha_cases nacc niter :
    (0 <= nacc <= niter)%Z -> (0 < niter)%Z ->
    let rate := IZR nacc / IZR niter in
    (s_target p < rate -> 1 < ss_alpha nacc niter (s_target p))
    /\ (rate < s_target p -> 0 < ss_alpha nacc niter (s_target p) < 1)
    /\ 0 < ss_alpha nacc niter (s_target p).
  Proof.
    intros Hn Hi rate. unfold ss_alpha. cbn [nltb ndiv nexp nofZ none nopp NumReal]. fold rate.
    assert (Hip : 0 < IZR niter) by (apply IZR_lt; lia).
    destruct (Rltb (s_target p) rate) eqn:E1.
    - apply Rltb_true in E1.
      assert (0 < IZR nacc).
      { assert (0 < rate) by lra. unfold rate in H. destruct (Z.eq_dec nacc 0) as [->|Hne]; [unfold Rdiv in H; lra|apply IZR_lt; lia]. }
      match goal with |- context [exp ?a] => set (e := exp a); assert (1 < e) end.
      { apply exp_gt_1'. apply Rdiv_lt_0_compat; lra. }
      repeat split; intros; lra.
    - apply Rltb_false in E1. destruct (Rltb rate (s_target p)) eqn:E2.
      + apply Rltb_true in E2.
        assert (0 < IZR (niter - nacc)).
        { apply IZR_lt. destruct (Z.eq_dec nacc niter) as [->|Hne]; [|lia].
          exfalso. unfold rate in E2. unfold Rdiv in E2. rewrite Rinv_r in E2 by lra. lra. }
        match goal with |- context [exp ?a] => set (e := exp a); assert (0 < e) by apply exp_pos; assert (e < 1) end.
        { apply exp_lt_1'. unfold Rdiv.
          assert (0 < / IZR (niter - nacc)) by (now apply Rinv_0_lt_compat). lra. }
        repeat split; intros; lra.
      + apply Rltb_false in E2. repeat split; intros; lra.
  Qed.

  (** direction: a cumulative acceptance rate above the target does not narrow any width, a
      rate below it does not widen any (widths are positive) *)
  Theorem ss_direction nsteps (acc : bool) :
    Forall (fun s => 0 < s) (s_std p) ->
    let nacc := (s_nacc p + (if acc then 1 else 0))%Z in
    let niter := (nsteps - (s_start p - 1) + 1)%Z in
    (0 <= nacc <= niter)%Z -> (0 < niter)%Z ->
    (s_target p < IZR nacc / IZR niter -> Forall2 Rle (s_std p) (s_std (ss_update p nsteps acc)))
    /\ (IZR nacc / IZR niter < s_target p -> Forall2 Rge (s_std p) (s_std (ss_update p nsteps acc)))
    /\ Forall (fun s => 0 < s) (s_std (ss_update p nsteps acc)).
  Proof.
    intros Hpos nacc niter Hn Hi. unfold ss_update. fold nacc. fold niter. cbn [s_std].
    destruct (ss_alpha_cases nacc niter Hn Hi) as (Hup & Hdown & Hp).
    cbn [nsqrt nmul NumReal].
    set (al := sqrt (ss_alpha nacc niter (s_target p))).
    assert (Hal : 0 < al) by (apply sqrt_lt_R0; exact Hp).
    rewrite Forall_forall in Hpos.
    repeat split.
    - intros Hr. assert (1 <= al). { unfold al. rewrite <- sqrt_1. apply sqrt_le_1; [lra|lra|]. specialize (Hup Hr). lra. }
      destruct (match s_cap p with None => true | Some cap => nleb (al * list_max (s_std p)) cap end).
      + clear - Hpos H. induction (s_std p) as [|s t IH]; cbn; constructor.
        * assert (0 < s) by (apply Hpos; now left). nra.
        * apply IH. intros; apply Hpos; now right.
      + apply Forall2_refl'. intros; lra.
    - intros Hr. assert (al <= 1). { unfold al. rewrite <- sqrt_1. apply sqrt_le_1; [lra|lra|]. specialize (Hdown Hr). lra. }
      destruct (match s_cap p with None => true | Some cap => nleb (al * list_max (s_std p)) cap end).
      + clear - Hpos H Hal. induction (s_std p) as [|s t IH]; cbn; constructor.
        * assert (0 < s) by (apply Hpos; now left). nra.
        * apply IH. intros; apply Hpos; now right.
      + apply Forall2_refl'. intros; lra.
    - destruct (match s_cap p with None => true | Some cap => nleb (al * list_max (s_std p)) cap end).
      + apply Forall_forall. intros x Hx. apply in_map_iff in Hx as (s & <- & Hs). specialize (Hpos s Hs). nra.
      + apply Forall_forall. exact Hpos.
  Qed.

  (** the cap of the bounded/angular/discrete variants is an invariant *)
  Theorem ss_cap_invariant nsteps (acc : bool) cap :
    s_cap p = Some cap -> Forall (fun s => 0 < s <= cap) (s_std p) ->
    (0 < ss_alpha (s_nacc p + (if acc then 1 else 0)) (nsteps - (s_start p - 1) + 1) (s_target p)) ->
    Forall (fun s => 0 < s <= cap) (s_std (ss_update p nsteps acc)).
  Proof.
    intros Hc Hs Hp. unfold ss_update. rewrite Hc. cbn [s_std nsqrt nmul nleb NumReal].
    set (al := sqrt _). assert (Hal : 0 < al) by (apply sqrt_lt_R0; exact Hp).
    destruct (Rleb (al * list_max (s_std p)) cap) eqn:E; [|exact Hs].
    apply Rleb_true in E. rewrite Forall_forall in Hs. apply Forall_forall.
    intros x Hx. apply in_map_iff in Hx as (s & <- & Hin). destruct (Hs s Hin) as [H0 H1].
    pose proof (list_max_ge (s_std p) s Hin). split; [nra|]. nra.
  Qed.
End SS.

(** ** Robbins-Monro log-scale variables (Andrieu-Thoms, eigenvector, solid angle) *)
Lemma rm_factor_R (dk Tz : Z) : (1 <= dk)%Z -> (dk < Tz)%Z ->
  0 < rm_factor dk (exp (- (6 / 10) * ln (IZR Tz))) < 1.
Proof.
  intros H1 H2. unfold rm_factor, npow, n06, nten. cbn [nsub nexp nmul nln nopp ndiv nofZ NumReal].
  apply rm_factor_range; [apply IZR_le; lia|apply IZR_lt; lia].
Qed.

Section AT.
  Variable p : @at_state R.
  Hypothesis Hdecay : a_decayc p = exp (- (6 / 10) * ln (IZR (a_T p))).     (* duration ** (-0.6) *)

  Theorem at_direction nsteps ar x :
    at_window p nsteps = true ->
    (a_target p < ar -> a_loglam p < a_loglam (at_update p nsteps ar x))
    /\ (ar < a_target p -> a_loglam (at_update p nsteps ar x) < a_loglam p)
    /\ (0 <= ar <= 1 -> 0 < a_target p < 1 -> Rabs (a_loglam (at_update p nsteps ar x) - a_loglam p) < 1).
  Proof.
    intros Hw. unfold at_update. rewrite Hw. cbn [a_loglam nadd nmul nsub NumReal].
    unfold at_window in Hw. apply andb_prop in Hw as [H1 H2]. apply Z.ltb_lt in H1, H2.
    rewrite Hdecay. pose proof (rm_factor_R (dkZ nsteps (a_start p)) (a_T p)) as Hf.
    destruct Hf as [Hf0 Hf1]; [lia|lia|].
    set (d := rm_factor _ _) in *.
    repeat split; intros.
    - assert (0 < d * (ar - a_target p)) by (apply Rmult_lt_0_compat; lra). lra.
    - assert (0 < d * (a_target p - ar)) by (apply Rmult_lt_0_compat; lra). nra.
    - replace (a_loglam p + d * (ar - a_target p) - a_loglam p) with (d * (ar - a_target p)) by ring.
      apply Rabs_def1; nra.
  Qed.

  Theorem at_frozen nsteps ar x : (a_T p <= dkZ nsteps (a_start p))%Z -> at_update p nsteps ar x = p.
  Proof.
    intros Hd. unfold at_update, at_window.
    replace (dkZ nsteps (a_start p) <? a_T p)%Z with false by (symmetry; apply Z.ltb_ge; exact Hd).
    now rewrite andb_false_r.
  Qed.

  (** admissible: the diagonal second moment stays positive and so do the widths *)
  Theorem at_admissible nsteps ar x :
    length x = length (a_mean p) -> length (a_ucov p) = length (a_mean p) ->
    Forall (fun u => 0 < u) (a_ucov p) -> Forall (fun s => 0 < s) (a_std p) ->
    Forall (fun u => 0 < u) (a_ucov (at_update p nsteps ar x)) /\ Forall (fun s => 0 < s) (a_std (at_update p nsteps ar x)).
  Proof.
    intros Hx Hu Hpos Hstd. unfold at_update. destruct (at_window p nsteps) eqn:Hw; [|split; assumption].
    cbn [a_ucov a_std]. unfold at_window in Hw. apply andb_prop in Hw as [H1 H2]. apply Z.ltb_lt in H1, H2.
    rewrite Hdecay. destruct (rm_factor_R (dkZ nsteps (a_start p)) (a_T p)) as [Hf0 Hf1]; [lia|lia|].
    set (d := rm_factor _ _) in *.
    assert (HU : Forall (fun u => 0 < u)
              (map2 (fun u f => (u + d * (f * f - u))%num) (a_ucov p) (map2 nsub x (a_mean p)))).
    { assert (Hl : length (a_ucov p) = length (map2 nsub x (a_mean p))) by (rewrite map2_length; lia).
      revert Hl Hpos. generalize (map2 nsub x (a_mean p)) as df. generalize (a_ucov p) as us.
      induction us as [|u us IH]; intros [|f df] Hl Hp; cbn in *; try lia; constructor; inversion Hp; subst.
      - cbn [nadd nmul nsub NumReal]. assert (0 <= f * f) by nra. nra.
      - apply IH; [lia|assumption]. }
    split; [exact HU|].
    apply Forall_forall. intros s Hs. apply in_map_iff in Hs as (u & <- & Hin).
    rewrite Forall_forall in HU. specialize (HU u Hin). cbn [nsqrt nmul nexp NumReal].
    apply sqrt_lt_R0. apply Rmult_lt_0_compat; [apply exp_pos|exact HU].
  Qed.
End AT.

Section RM.
  Variable p : @rm_state R.
  Hypothesis Hdecay : r_decayc p = exp (- (6 / 10) * ln (IZR (r_T p))).

  (** eigenvector scale: widens with acceptance above target, narrows below *)
  Theorem eig_direction nsteps ar :
    rm_window p nsteps = true ->
    (r_target p < ar -> r_log p < r_log (eig_update p nsteps ar))
    /\ (ar < r_target p -> r_log (eig_update p nsteps ar) < r_log p).
  Proof.
    intros Hw. unfold eig_update. rewrite Hw. cbn [r_log nadd nmul nsub NumReal].
    unfold rm_window in Hw. apply andb_prop in Hw as [H1 H2]. apply Z.ltb_lt in H1, H2.
    rewrite Hdecay. destruct (rm_factor_R (dkZ nsteps (r_start p)) (r_T p)) as [Hf0 Hf1]; [lia|lia|].
    set (d := rm_factor _ _) in *. split; intros; nra.
  Qed.

  (** solid angle: the concentration kappa falls (the proposal widens) with acceptance above
      target and rises below; it is always positive *)
  Theorem kappa_direction nsteps ar :
    rm_window p nsteps = true ->
    (r_target p < ar -> kappa_of (kappa_update p nsteps ar) < kappa_of p)
    /\ (ar < r_target p -> kappa_of p < kappa_of (kappa_update p nsteps ar))
    /\ 0 < kappa_of (kappa_update p nsteps ar).
  Proof.
    intros Hw. unfold kappa_update, kappa_of. rewrite Hw. cbn [r_log nadd nmul nsub nexp NumReal].
    unfold rm_window in Hw. apply andb_prop in Hw as [H1 H2]. apply Z.ltb_lt in H1, H2.
    rewrite Hdecay. destruct (rm_factor_R (dkZ nsteps (r_start p)) (r_T p)) as [Hf0 Hf1]; [lia|lia|].
    set (d := rm_factor _ _) in *. repeat split; intros; try apply exp_pos; apply exp_increasing; nra.
  Qed.

  Theorem rm_frozen nsteps ar :
    (r_T p <= dkZ nsteps (r_start p))%Z -> eig_update p nsteps ar = p /\ kappa_update p nsteps ar = p.
  Proof.
    intros Hd. unfold eig_update, kappa_update, rm_window.
    replace (dkZ nsteps (r_start p) <? r_T p)%Z with false by (symmetry; apply Z.ltb_ge; exact Hd).
    now rewrite andb_false_r.
  Qed.

  (** envelope: over any history of acceptance ratios in [0,1] the log-scale moves by less than
      the factor at each step, hence after n adapted steps it lies within n of where it started *)
  Theorem rm_step_envelope nsteps ar :
    0 <= ar <= 1 -> 0 < r_target p < 1 ->
    Rabs (r_log (eig_update p nsteps ar) - r_log p) < 1 /\ Rabs (r_log (kappa_update p nsteps ar) - r_log p) < 1.
  Proof.
    intros Har Ht. unfold eig_update, kappa_update. destruct (rm_window p nsteps) eqn:Hw.
    - cbn [r_log nadd nmul nsub NumReal].
      unfold rm_window in Hw. apply andb_prop in Hw as [H1 H2]. apply Z.ltb_lt in H1, H2.
      rewrite Hdecay. destruct (rm_factor_R (dkZ nsteps (r_start p)) (r_T p)) as [Hf0 Hf1]; [lia|lia|].
      set (d := rm_factor _ _) in *.
      split; apply Rabs_def1; nra.
    - rewrite Rminus_diag_eq by reflexivity. rewrite Rabs_R0. lra.
  Qed.
End RM.
